(* NeededRunFacts1.v — C09 for WHOLE runs, part 1 of 3 (part 2: NeededRunFacts2.v, T2; part 3: NeededRunFacts.v, T3 and the
   summary): `--needed` (mode InMemoryBuild) against a normal build (mode Build).
   T1 `needed_run_equals_build_run`: from the same initial world and with the same schedule and fuel, a run in mode
   InMemoryBuild and a run in mode Build have the same verdict, the same trace (tasks and results in completion order), the
   same final coordinator state; the two final worlds differ at most on the outputs of the sources whose last executed
   pass did not report success (Build has truncated / partially rewritten them, --needed has left them alone), and when
   the verdict is VOk the two final trees are the same (`w_eq`).  `needed_run_equals_build_run_any_schedule` extends this
   to two different schedules with `schedule_independence_temps`.
   Everything is proved (nothing assumed).  Counterexamples to the statement without the static hypothesis
   `needed_ok` are machine-checked at the end of the file (`needed_run_cex_*`). *)
Require Import Txtpp.Str Txtpp.Consts Txtpp.Grammar Txtpp.Tags Txtpp.Path Txtpp.Fs Txtpp.Sink Txtpp.Pp Txtpp.Spec.
Require Import Txtpp.Dep Txtpp.Coord Txtpp.Run.
Require Import Txtpp.proofs.StrFacts Txtpp.proofs.SinkFacts Txtpp.proofs.PathFacts Txtpp.proofs.PpFacts Txtpp.proofs.EventFacts.
Require Import Txtpp.proofs.FrameFacts Txtpp.proofs.ConfluenceFacts Txtpp.proofs.DepFacts Txtpp.proofs.CoordFacts Txtpp.proofs.RunFacts.
Require Import Txtpp.proofs.ScheduleFacts Txtpp.proofs.RunEventsFacts Txtpp.proofs.ScheduleTempFacts.
From Coq Require Import Lia Permutation.

Local Open Scope bool_scope.

(* the same configuration with another mode *)
Definition with_mode (cfg : config) (md : mode) : config :=
  mkCfg (cfg_base cfg) (cfg_inputs cfg) (cfg_recursive cfg) (cfg_threads cfg) md (cfg_trailing cfg).

(* ================================================================================================
   PART 1 — two runs side by side, with TWO configurations, driven by an invariant of the FIRST run that may look at
   the ghost coordinator state (ConfluenceFacts.loop_sim + ScheduleFacts.loop_safe_intro_g + run_loop_inv_g in one).
   `Rel i` relates the two worlds; the index i is updated by `upd` at every completed task; `J i g w` is the invariant
   of the first run while the coordinator is running, `Jd i l w` while the pool is drained after an error.
   ================================================================================================ *)
Section Sim2.
Variable orc : oracle.
Variables cfg1 cfg2 : config.
Variable base : path.
Variables files dirs : list path.
Variable I : Type.
Variable Rel : I -> world -> world -> Prop.
Variable upd : I -> task -> result -> I.
Variable J : I -> gstate -> world -> Prop.
Variable Jd : I -> list task -> world -> Prop.
Variable P : task -> result -> Prop.                 (* a property of every task the first run executes, and of its result *)

Hypothesis J_P : forall i g w t r w', greach files dirs g -> J i g w -> In t (inflight (gs g)) ->
  exec_task orc cfg1 base t w = Some (r, w') -> P t r.
Hypothesis Jd_P : forall i l w t r w', Jd i l w -> In t l -> exec_task orc cfg1 base t w = Some (r, w') -> P t r.
Hypothesis J_sim : forall i g w1 w2 t r w1',
  greach files dirs g -> J i g w1 -> Rel i w1 w2 -> In t (inflight (gs g)) ->
  exec_task orc cfg1 base t w1 = Some (r, w1') ->
  exists w2', exec_task orc cfg2 base t w2 = Some (r, w2') /\ Rel (upd i t r) w1' w2'.
Hypothesis J_step : forall i g w t rest r w' s2,
  greach files dirs g -> J i g w -> Permutation (inflight (gs g)) (t :: rest) ->
  exec_task orc cfg1 base t w = Some (r, w') -> handle (with_inflight (gs g) rest) r = Continue s2 ->
  J (upd i t r) (mkG s2 (report t r (reported g)) (history g ++ [t])) w'.
Hypothesis J_fail : forall i g w t rest r w',
  greach files dirs g -> J i g w -> Permutation (inflight (gs g)) (t :: rest) ->
  exec_task orc cfg1 base t w = Some (r, w') -> handle (with_inflight (gs g) rest) r = Fail ->
  Jd (upd i t r) rest w'.
Hypothesis Jd_sim : forall i l w1 w2 t r w1',
  Jd i l w1 -> Rel i w1 w2 -> In t l ->
  exec_task orc cfg1 base t w1 = Some (r, w1') ->
  exists w2', exec_task orc cfg2 base t w2 = Some (r, w2') /\ Rel (upd i t r) w1' w2'.
Hypothesis Jd_step : forall i l w t r w' l',
  Jd i l w -> In t l -> exec_task orc cfg1 base t w = Some (r, w') -> (forall x, In x l' -> In x l) ->
  Jd (upd i t r) l' w'.

Local Notation utrace := (upd_trace I upd).

Lemma drain_sim2 fuel : forall i sched l w1 w2 tr w1' tr',
  Jd i l w1 -> Rel i w1 w2 ->
  drain orc cfg1 base fuel sched l w1 tr = Some (w1', tr') ->
  exists w2' added, tr' = tr ++ added /\ drain orc cfg2 base fuel sched l w2 tr = Some (w2', tr') /\
                    Rel (utrace i added) w1' w2' /\ Forall (fun x => P (fst x) (snd x)) added.
Proof.
  induction fuel as [|fuel IH]; intros i sched l w1 w2 tr w1' tr' HJ HR HD; cbn [drain] in *.
  - inversion HD; subst. exists w2, []. rewrite app_nil_r. auto.
  - destruct (sort_tasks l) as [|t0 sl'] eqn:E.
    + inversion HD; subst. exists w2, []. rewrite app_nil_r. auto.
    + cbv zeta in *. set (sl := t0 :: sl') in *. set (k := pick sched sl) in *. set (t := nth k sl t0) in *.
      assert (Hsub : forall x, In x sl -> In x l).
      { intros x Hx. eapply Permutation_in; [apply Permutation_sym; apply sort_tasks_perm|]. rewrite E. exact Hx. }
      assert (Ht : In t l). { apply Hsub. apply nth_In. apply pick_lt. }
      destruct (exec_task orc cfg1 base t w1) as [[r wa]|] eqn:E1; [|discriminate].
      destruct (Jd_sim i l w1 w2 t r wa HJ HR Ht E1) as (wb & E2 & HR'). rewrite E2.
      assert (HJ' : Jd (upd i t r) (remove_nth k sl) wa).
      { apply (Jd_step i l w1 t r wa _ HJ Ht E1). intros x Hx. apply Hsub. eapply remove_nth_sub; eauto. }
      destruct (IH _ _ _ _ _ _ _ _ HJ' HR' HD) as (w2' & added & Et & Hd2 & HR2 & HP2).
      exists w2', ((t, r) :: added). split; [rewrite Et, <- app_assoc; reflexivity|]. split; [exact Hd2|].
      split; [exact HR2|]. constructor; [exact (Jd_P i l w1 t r wa HJ Ht E1)|exact HP2].
Qed.

Theorem loop_sim2 fuel : forall i sched g w1 w2 tr,
  greach files dirs g -> J i g w1 -> Rel i w1 w2 ->
  let x1 := run_loop orc cfg1 base fuel sched (gs g) w1 tr in
  let x2 := run_loop orc cfg2 base fuel sched (gs g) w2 tr in
  verdict_of x1 = verdict_of x2 /\ trace_of x1 = trace_of x2 /\ state_of x1 = state_of x2 /\
  exists added, trace_of x1 = tr ++ added /\ Rel (utrace i added) (world_of x1) (world_of x2) /\
    Forall (fun x => P (fst x) (snd x)) added /\
    (verdict_of x1 = VOk ->
     exists g', greach files dirs g' /\ gs g' = state_of x1 /\ inflight (gs g') = [] /\
                (forall f, is_seen g' f -> finished g' f) /\ J (utrace i added) g' (world_of x1)).
Proof.
  assert (Hexit : forall i g w, greach files dirs g -> J i g w -> sort_tasks (inflight (gs g)) = [] ->
            (if has_remaining (dm (gs g)) then VErr else VOk) = VOk ->
            exists g', greach files dirs g' /\ gs g' = gs g /\ inflight (gs g') = [] /\
                       (forall f, is_seen g' f -> finished g' f) /\ J i g' w).
  { intros i g w R HJ E Hv. exists g. split; [exact R|]. split; [reflexivity|].
    pose proof (sort_tasks_nil _ E) as Hfl. split; [exact Hfl|]. split; [|exact HJ].
    intros f Hseen. unfold finished. destruct (pmem f (fin (dm (gs g)))) eqn:Ef; [reflexivity|].
    assert (Ht' : has_remaining (dm (gs g)) = true).
    { apply (cycle_verdict_iff files dirs g R Hfl). exists f. split; [exact Hseen|].
      unfold finished. rewrite Ef. discriminate. }
    rewrite Ht' in Hv. discriminate. }
  induction fuel as [|fuel IH]; intros i sched g w1 w2 tr R HJ HR.
  - destruct (sort_tasks (inflight (gs g))) as [|t0 sl'] eqn:E.
    + rewrite !(run_loop_exit _ _ _ _ _ _ _ _ E). cbn. repeat split.
      exists []. rewrite app_nil_r. split; [reflexivity|]. split; [exact HR|]. split; [constructor|].
      intros Hv. apply (Hexit i g w1 R HJ E Hv).
    + rewrite !(run_loop_nofuel _ _ _ _ _ _ _ _ _ E). cbn. repeat split.
      exists []. rewrite app_nil_r. split; [reflexivity|]. split; [exact HR|]. split; [constructor|discriminate].
  - destruct (sort_tasks (inflight (gs g))) as [|t0 sl'] eqn:E.
    + rewrite !(run_loop_exit _ _ _ _ _ _ _ _ E). cbn. repeat split.
      exists []. rewrite app_nil_r. split; [reflexivity|]. split; [exact HR|]. split; [constructor|].
      intros Hv. apply (Hexit i g w1 R HJ E Hv).
    + rewrite !(run_loop_step _ _ _ _ _ _ _ _ _ _ E). cbv zeta.
      set (sl := t0 :: sl'). set (k := pick sched sl). set (t := nth k sl t0).
      set (rest := remove_nth k sl). set (s1 := with_inflight (gs g) rest).
      assert (HP : Permutation (inflight (gs g)) (t :: rest)).
      { eapply perm_trans; [apply sort_tasks_perm|]. rewrite E. apply pick_split. apply pick_lt. }
      assert (Ht : In t (inflight (gs g))).
      { eapply Permutation_in; [apply Permutation_sym; exact HP|]. left. reflexivity. }
      destruct (exec_task_total orc cfg1 base t w1) as (r & wa & E1). rewrite E1.
      assert (HPt : P t r) by (apply (J_P i g w1 t r wa R HJ Ht E1)).
      destruct (J_sim i g w1 w2 t r wa R HJ HR Ht E1) as (wb & E2 & HR'). rewrite E2.
      pose proof (exec_task_answers orc cfg1 base _ _ _ _ E1) as Hans.
      destruct (handle s1 r) as [s2| |] eqn:Hh.
      * set (g2 := mkG s2 (report t r (reported g)) (history g ++ [t])).
        assert (R2 : greach files dirs g2).
        { eapply greach_step; [exact R|]. apply (gstep_continue g t rest r s2); assumption. }
        assert (HJ2 : J (upd i t r) g2 wa) by (apply (J_step i g w1 t rest r wa s2); assumption).
        destruct (IH (upd i t r) (tl sched) g2 wa wb (tr ++ [(t, r)]) R2 HJ2 HR') as (Hv & Htr & Hs & added & Ea & HRa & HPa & Hok).
        change (gs g2) with s2 in Hv, Htr, Hs, Ea, HRa, Hok.
        split; [exact Hv|]. split; [exact Htr|]. split; [exact Hs|].
        exists ((t, r) :: added). split; [rewrite Ea, <- app_assoc; reflexivity|]. split; [exact HRa|].
        split; [constructor; [exact HPt|exact HPa]|exact Hok].
      * destruct (drain_total orc cfg1 base (length (inflight s1)) (tl sched) (inflight s1) wa (tr ++ [(t, r)]))
          as (w1' & tr1 & Hd1).
        assert (HJd : Jd (upd i t r) (inflight s1) wa) by (apply (J_fail i g w1 t rest r wa); assumption).
        destruct (drain_sim2 _ _ _ _ _ wb _ _ _ HJd HR' Hd1) as (w2' & added & Et & Hd2 & HR2 & HP2).
        apply app_inv_head in Et. subst tr1.
        rewrite Hd1, Hd2. cbn. repeat split.
        exists ((t, r) :: added). split; [rewrite <- app_assoc; reflexivity|]. split; [exact HR2|].
        split; [constructor; [exact HPt|exact HP2]|discriminate].
      * cbn. repeat split. exists [(t, r)]. split; [reflexivity|]. split; [exact HR'|].
        split; [constructor; [exact HPt|constructor]|discriminate].
Qed.
End Sim2.

(* ================================================================================================
   PART 2 — one pass: `--needed` against Build in the SAME world (FrameFacts.needed_pass_vs_build_pass for first passes
   too), and one task of the two runs in two worlds that differ on a set D of pending outputs.
   ================================================================================================ *)
Lemma writes_of_needed w f : writes_of InMemoryBuild w f = writes_of Build w f.
Proof. reflexivity. Qed.
Lemma items_of_needed w f : items_of InMemoryBuild w f = items_of Build w f.
Proof. reflexivity. Qed.

Lemma Xout_in_paths out p : in_paths [out] p = false -> Xout out p = false.
Proof.
  intros H. apply in_paths_false in H. apply Xout_false. intros ->. apply H. left. reflexivity.
Qed.

(* a first or a final pass: same verdict / dependencies; on success the same tree; otherwise the same tree except at
   the output (and the same directories) *)
Theorem needed_pass_vs_build_pass_gen orc base src first tn w out :
  remove_txtpp src = Some out -> all_normal (parent src) ->
  (forall p, In p (probes first Build src (items_of Build w src)) -> p <> out) ->
  write_target (w_fs w) out <> None ->
  OR (Xout out) w_eq (pp_run orc InMemoryBuild base src first tn w) (pp_run orc Build base src first tn w).
Proof.
  intros Hrm Hnorm Hpr Hwt.
  destruct (remove_txtpp_shape src out Hrm) as (dir & n & m & Es & Eo).
  assert (Hdir : all_normal dir).
  { unfold parent in Hnorm. rewrite Es, removelast_last in Hnorm. exact Hnorm. }
  assert (out_ne : out <> []) by (rewrite Eo; intros E; destruct dir; discriminate).
  rewrite !pp_run_unfold. unfold items_of in Hpr.
  destruct (read_file (w_fs w) src) as [raw|] eqn:Er; [|split; [reflexivity|apply agree_refl]].
  rewrite Hrm. destruct (is_txtpp_file out); [split; [reflexivity|apply agree_refl]|].
  destruct (write_target (w_fs w) out) as [q|] eqn:Ew; [clear Hwt|congruence].
  assert (q = out).
  { destruct (EventFacts.write_target_shape _ _ _ Ew) as (rp & n' & Ep & _ & Eq).
    rewrite Eo in Ep. apply app_inj_tail in Ep. destruct Ep as [<- <-].
    rewrite Eq, Eo. rewrite (lex_normalize_normal dir Hdir). reflexivity. }
  subst q. unfold sink_new, w_write. rewrite Ew. rewrite pp_rest_needed.
  apply (pp_rest_cong (Xout out) (SKnb out) w_eq (SKnb_write out out_ne) (SKnb_stable out) (SKnb_done out out_ne)).
  - cbn [w_fs]. apply agree_put_right; [exact out_ne|apply agree_refl|].
    eapply write_target_not_dir; eauto.
  - exists []. cbn [w_fs]. repeat split; auto. apply fs_get_put_same. exact out_ne.
  - intros p Hin. apply Xout_false. apply Hpr. exact Hin.
Qed.

(* what is asked of a task for the comparison of the two modes in ONE world: the source is canonical, its output can be
   created, the pass does not look at its own output, and it writes no `.txtpp` name *)
Definition needed_safe (t : task) (w : world) : Prop :=
  match t with
  | TScan _ => True
  | TPp f b =>
    forall out raw, remove_txtpp f = Some out -> read_file (w_fs w) f = Some raw ->
      all_normal (parent f) /\
      write_target (w_fs w) out <> None /\
      (forall p, In p (probes b Build f (items_of Build w f)) -> p <> out) /\
      (forall q, In q (writes_of Build w f) -> is_txtpp_file q = false)
  end.

(* the output of a pass that did not report success: Build has touched it, --needed has not *)
Definition pending_out (t : task) (r : result) : list path :=
  match t, r with
  | TPp f _, RPp _ (Some POk) => []
  | TPp f _, RPp _ _ => match remove_txtpp f with Some out => [out] | None => [] end
  | _, _ => []
  end.

Lemma needed_task_step orc cfg base t w r wX :
  raw_ok w -> needed_safe t w ->
  exec_task orc (with_mode cfg Build) base t w = Some (r, wX) ->
  exists wN, exec_task orc (with_mode cfg InMemoryBuild) base t w = Some (r, wN) /\
             stale_rel (pending_out t r) wX wN /\
             (read_file (w_fs w) (match t with TPp f _ => f | TScan d => d end) = None -> wX = w /\ wN = w).
Proof.
  intros HN Hsafe Hex. destruct t as [d|f b].
  - cbn [exec_task] in *. inversion Hex; subst. exists wX. split; [reflexivity|]. split; [|auto].
    apply stale_rel_refl. exact HN.
  - rewrite exec_task_pp in *. cbn [with_mode cfg_mode cfg_trailing] in *. cbv zeta in *.
    set (tn := cfg_trailing cfg) in *.
    destruct (read_file (w_fs w) f) as [raw|] eqn:Er.
    2:{ rewrite (pp_run_unreadable _ _ _ _ _ _ w Er) in Hex. rewrite (pp_run_unreadable _ _ _ _ _ _ w Er).
        cbn in *. inversion Hex; subst.
        exists wX. split; [reflexivity|]. split; [apply stale_rel_refl; exact HN|auto]. }
    destruct (remove_txtpp f) as [out|] eqn:Ho.
    2:{ rewrite (pp_run_no_out _ _ _ _ _ _ w Ho) in Hex. rewrite (pp_run_no_out _ _ _ _ _ _ w Ho).
        cbn in *. inversion Hex; subst.
        exists wX. split; [reflexivity|]. split; [apply stale_rel_refl; exact HN|discriminate]. }
    destruct (Hsafe out raw Ho Er) as (Hn & Hwt & Hpr & Htx).
    pose proof (needed_pass_vs_build_pass_gen orc base f b tn w out Ho Hn Hpr Hwt) as H.
    destruct (pp_run_scan orc Build base f b tn w HN Htx) as [NB SB].
    destruct (pp_run_scan orc InMemoryBuild base f b tn w HN Htx) as [NN SN].
    set (oN := pp_run orc InMemoryBuild base f b tn w) in *.
    set (oB := pp_run orc Build base f b tn w) in *.
    assert (Htag : tag_of oN = tag_of oB).
    { destruct oN, oB; simpl in H; try contradiction; cbn; try reflexivity; destruct H as [-> _]; reflexivity. }
    rewrite Htag.
    destruct (res_of_tag f (tag_of oB)) as [r'|] eqn:Er'; [|discriminate]. inversion Hex; subst r' wX. clear Hex.
    exists (out_world oN w). split; [reflexivity|]. split; [|discriminate].
    split; [|exact NB|exact NN|rewrite SB, SN; reflexivity].
    assert (HW : wR (in_paths [out]) (out_world oB w) (out_world oN w)).
    { assert (HW' : wR (Xout out) (out_world oN w) (out_world oB w)).
      { destruct oN, oB; simpl in H; try contradiction; cbn [out_world]; try apply H.
        - apply wR_noX in H. apply (wR_weaken noX); [reflexivity|exact H].
        - apply agree_refl. }
      apply (wR_weaken (Xout out)); [apply Xout_in_paths|].
      destruct HW' as [A B]. split; [intros p Hp; symmetry; apply A; exact Hp|intros p; symmetry; apply B]. }
    destruct (tag_of oB) as [|ds|k|] eqn:Etag; cbn in Er'; inversion Er'; subst r; cbn [pending_out]; rewrite ?Ho;
      try exact HW.
    assert (HE : w_eq (out_world oN w) (out_world oB w)).
    { destruct oN, oB; simpl in H; try contradiction; try discriminate. exact H. }
    apply wR_noX in HE. destruct HE as [A B].
    split; [intros p _; symmetry; apply A; reflexivity|intros p; symmetry; apply B].
Qed.

(* ================================================================================================
   PART 3 — the lock-step of a Build run (first) and a --needed run (second).
   The index is the set D of paths on which the two worlds may differ: outputs of sources of which a pass has been
   executed that did not report success (first passes that reported dependencies, failed passes).
   ================================================================================================ *)
(* a pass over a source of w0 that did not report success leaves its output pending *)
Definition pending_src (w0 : world) (t : task) (r : result) : list path :=
  match t with
  | TPp f _ => match read_file (w_fs w0) f with Some _ => pending_out t r | None => [] end
  | TScan _ => []
  end.
Definition updN (w0 : world) (D : list path) (t : task) (r : result) : list path :=
  pending_src w0 t r ++ stale_updT w0 D t r.
(* the outputs that are pending after the tasks of a trace *)
Definition pending_after (w0 : world) (tr : list (task * result)) : list path :=
  upd_trace (list path) (updN w0) [] tr.

Lemma in_pending_out t r p : In p (pending_out t r) ->
  exists f b g x, t = TPp f b /\ r = RPp g x /\ x <> Some POk /\ remove_txtpp f = Some p.
Proof.
  destruct t as [d|f b]; [intros []|]. destruct r as [y|g x]; cbn [pending_out]; [intros []|].
  assert (G : In p (match remove_txtpp f with Some out => [out] | None => [] end) -> x <> Some POk ->
              exists f0 b0 g0 x0, TPp f b = TPp f0 b0 /\ RPp g x = RPp g0 x0 /\ x0 <> Some POk /\ remove_txtpp f0 = Some p).
  { destruct (remove_txtpp f) as [o|] eqn:Ho; [|intros []]. intros [<-|[]] Hx.
    exists f, b, g, x. repeat split; assumption. }
  destruct x as [[|ds]|]; [intros []|intros H; apply G; [exact H|discriminate]..].
Qed.

Lemma in_pending_src w0 t r p : In p (pending_src w0 t r) ->
  exists f b g x, t = TPp f b /\ r = RPp g x /\ x <> Some POk /\ is_source w0 f p.
Proof.
  destruct t as [d|f b]; [intros []|]. cbn [pending_src].
  destruct (read_file (w_fs w0) f) as [raw|] eqn:Er; [|intros []]. intros H.
  destruct (in_pending_out _ _ _ H) as (f0 & b0 & g & x & Et & Er' & Hx & Ho). inversion Et; subst f0 b0.
  exists f, b, g, x. repeat split; try assumption. exists raw. exact Er.
Qed.

Lemma in_updN w0 D t r p : In p (updN w0 D t r) -> In p (pending_src w0 t r) \/ In p D.
Proof.
  unfold updN. intros H. apply in_app_or in H. destruct H as [H|H]; [left; exact H|right].
  eapply stale_updT_sub; eauto.
Qed.

(* reading `pending_after`: a pending path is the output of a source of w0 of which some pass of the trace did not
   report success *)
Lemma in_upd_trace_updN w0 tr : forall D p, In p (upd_trace (list path) (updN w0) D tr) ->
  In p D \/ exists f b g x, In (TPp f b, RPp g x) tr /\ x <> Some POk /\ is_source w0 f p.
Proof.
  unfold upd_trace. induction tr as [|[t r] tr IH]; intros D p H; cbn [fold_left fst snd] in H; [left; exact H|].
  destruct (IH _ _ H) as [H1|(f & b & g & x & Hin & Hx & Hs)].
  - destruct (in_updN _ _ _ _ _ H1) as [H2|H2]; [|left; exact H2].
    destruct (in_pending_src _ _ _ _ H2) as (f & b & g & x & -> & -> & Hx & Hs).
    right. exists f, b, g, x. split; [left; reflexivity|]. split; assumption.
  - right. exists f, b, g, x. split; [right; exact Hin|]. split; assumption.
Qed.
Corollary in_pending_after w0 tr p : In p (pending_after w0 tr) ->
  exists f b g x, In (TPp f b, RPp g x) tr /\ x <> Some POk /\ is_source w0 f p.
Proof. intros H. destruct (in_upd_trace_updN w0 tr [] p H) as [[]|H1]. exact H1. Qed.

(* `needed_safe` only depends on the source and on the directories *)
Lemma needed_safe_transfer D t w1 w2 :
  wR (in_paths D) w1 w2 ->
  (forall f b out, t = TPp f b -> remove_txtpp f = Some out -> ~ In f D) ->
  needed_safe t w1 -> needed_safe t w2.
Proof.
  intros [A Dd] Hf H. destruct t as [d|f b]; [exact I|]. cbn [needed_safe] in *. intros out raw Ho Er.
  assert (E : fs_get (w_fs w2) f = fs_get (w_fs w1) f).
  { symmetry. apply A. apply in_paths_false. apply (Hf f b out eq_refl Ho). }
  assert (Er1 : read_file (w_fs w1) f = Some raw) by (unfold read_file in *; rewrite <- E; exact Er).
  destruct (H out raw Ho Er1) as (Hn & Hwt & Hpr & Htx).
  rewrite (items_of_same Build w1 w2 f E), (writes_of_same Build w1 w2 f E).
  split; [exact Hn|]. split; [|split; assumption].
  rewrite <- (write_target_dirs (w_fs w1) (w_fs w2) out Dd). exact Hwt.
Qed.

(* one task: the Build run executes it in wB, the --needed run in wN, the two worlds differ on D *)
Lemma needed_build_step orc cfg base w0 D t wB wN r wB' :
  stale_rel D wB wN -> stale_safeT w0 D t wB -> needed_safe t wB ->
  exec_task orc (with_mode cfg Build) base t wB = Some (r, wB') ->
  exists wN', exec_task orc (with_mode cfg InMemoryBuild) base t wN = Some (r, wN') /\
              stale_rel (updN w0 D t r) wB' wN'.
Proof.
  intros HR Hs Hn Hex.
  destruct (stale_stepT orc (with_mode cfg Build) base w0 D t wB wN r wB' eq_refl HR Hs Hex) as (wX & EX & HRX).
  assert (HnN : needed_safe t wN).
  { apply (needed_safe_transfer D t wB wN (sr_agree _ _ _ HR)); [|exact Hn].
    intros f b out -> Ho. cbn [stale_safeT] in Hs. rewrite Ho in Hs. apply Hs. }
  destruct (needed_task_step orc cfg base t wN r wX (sr_raw2 _ _ _ HR) HnN EX) as (wN' & EN & HRN & Hun).
  exists wN'. split; [exact EN|].
  apply (stale_rel_trans _ _ wX).
  - apply (stale_rel_mono (stale_updT w0 D t r)); [|exact HRX]. intros p Hp. unfold updN. apply in_or_app. right. exact Hp.
  - destruct t as [d|f b].
    + apply (stale_rel_mono []); [intros p []|exact HRN].
    + cbn [pending_src] in *. unfold updN. cbn [pending_src].
      destruct (remove_txtpp f) as [out|] eqn:Ho.
      2:{ apply (stale_rel_mono (pending_out (TPp f b) r)); [|exact HRN]. intros p Hp.
          destruct (in_pending_out _ _ _ Hp) as (f0 & b0 & g & x & Et & _ & _ & Ho'). inversion Et; subst. congruence. }
      cbn [stale_safeT] in Hs. rewrite Ho in Hs. destruct Hs as [Hf Hs].
      assert (E : fs_get (w_fs wN) f = fs_get (w_fs wB) f).
      { symmetry. apply (proj1 (sr_agree _ _ _ HR)). apply in_paths_false. exact Hf. }
      destruct (read_file (w_fs wN) f) as [raw|] eqn:Er.
      * assert (ErB : read_file (w_fs wB) f = Some raw) by (unfold read_file in *; rewrite <- E; exact Er).
        destruct (Hs raw ErB) as (E0 & _).
        assert (Er0 : read_file (w_fs w0) f = Some raw) by (unfold read_file in *; rewrite <- E0; exact ErB).
        rewrite Er0. apply (stale_rel_mono (pending_out (TPp f b) r)); [|exact HRN].
        intros p Hp. apply in_or_app. left. exact Hp.
      * destruct (Hun eq_refl) as [-> ->]. apply stale_rel_refl. exact (sr_raw2 _ _ _ HR).
Qed.

(* ================================================================================================
   PART 4 — the static hypotheses, the invariant of the Build run, and T1.
   ================================================================================================ *)
(* The static hypothesis that is specific to `--needed` (the other one is ScheduleTempFacts.sched_ok_temps).  For every
   source f of the tree, with output out: `File::create out` would succeed (the parent of out is a directory and out is
   not a directory), no `include` of f names out and no `temp` of f names out.  The three clauses are the hypotheses of
   FrameFacts.needed_pass_vs_build_pass; without them the two modes differ (see the counterexamples at the end). *)
Definition needed_ok (w : world) : Prop :=
  forall f out, is_source w f out ->
    write_target (w_fs w) out <> None /\
    ~ In out (map (tpath f) (include_args (items_of Build w f))) /\
    ~ In out (own_temps w f).

Lemma temp_in_nil src d : temp_in src [] d = None.
Proof.
  unfold temp_in. destruct (d_ty d); try reflexivity. destruct (d_args d) as [|a r]; [reflexivity|].
  cbn [in_paths existsb]. rewrite andb_false_r. reflexivity.
Qed.
Lemma reads_ok_nil f src its : forall m, reads_ok f src m [] its.
Proof.
  induction its as [|it r IH]; intros m; [exact I|]. cbn [reads_ok]. split.
  - destruct it as [l|d fol| |]; try exact I. split; [intros _ c _ []|].
    intros _. rewrite temp_in_nil. intros p _ [].
  - assert (E : D_after src [] m it = []).
    { destruct it as [l|d fol| |]; cbn [D_after]; try reflexivity. rewrite temp_in_nil. reflexivity. }
    rewrite E. apply IH.
Qed.

Lemma out_in_fp w0 f out : remove_txtpp f = Some out -> In out (fp w0 f).
Proof. intros Ho. rewrite (fp_shape w0 f out Ho). right. left. reflexivity. Qed.

Section NeededInv.
Variable orc : oracle.
Variable cfg : config.
Variable base : path.
Variable w0 : world.
Hypothesis HS : sched_ok_temps w0.
Hypothesis HN : needed_ok w0.
Variables files dirs : list path.
Local Notation cfgB := (with_mode cfg Build).
Local Notation cfgN := (with_mode cfg InMemoryBuild).
Local Notation is_src := (is_source w0).

(* different sources have different outputs *)
Lemma src_out_inj f g p : is_src f p -> is_src g p -> f = g.
Proof.
  intros Hf Hg. destruct (path_dec g f) as [E|Hne]; [symmetry; exact E|]. exfalso.
  destruct (HS f p Hf) as (_ & _ & _ & _ & _ & Hx). destruct (Hx g p Hg Hne) as [Hd _].
  apply (Hd p); apply out_in_fp; [apply Hg|apply Hf].
Qed.

(* what makes a pass safe: the worlds have the sources and directories of w0, and every pending path is the output of
   a source that is not a dependency of f when the pass is a final pass *)
Lemma safe_intro D' w f b :
  agree nt (w_fs w0) (w_fs w) ->
  (forall p, In p D' -> exists f', is_src f' p /\ (b = false -> ~ In f' (sdeps w0 f))) ->
  stale_safeT w0 D' (TPp f b) w /\ needed_safe (TPp f b) w.
Proof.
  intros A HD.
  assert (Hfacts : forall out raw, remove_txtpp f = Some out -> read_file (w_fs w) f = Some raw -> is_src f out).
  { intros out raw Ho Er. apply (source_in_world w0 w f out raw A Ho Er). }
  split.
  - cbn [stale_safeT]. destruct (remove_txtpp f) as [out|] eqn:Ho; [|exact I]. split.
    + intros Hin. destruct (HD f Hin) as (f' & Hs' & _).
      destruct (HS f' f Hs') as (_ & _ & Hto & _).
      pose proof (Hto f (out_in_fp w0 f' f (proj1 Hs'))) as Hx. rewrite (remove_txtpp_is_txtpp f out Ho) in Hx. discriminate.
    + intros raw Er. pose proof (Hfacts out raw eq_refl Er) as Hsrc.
      destruct (src_sameT w0 HS w f out A Hsrc) as (E0 & Ei & Ew & Hca & Esd & Ep).
      destruct (HS f out Hsrc) as (Hn & Hno & Hto & Hc & _ & Hx).
      split; [exact E0|]. split; [exact Hn|]. split; [intros _; exact Hca|]. split; [|rewrite Ew; exact Hto].
      rewrite Ei. apply (reads_ok_agree nt (w_fs w0)); [exact A| |].
      { intros c Hin. apply nt_false. apply Hc. exact Hin. }
      apply (reads_ok_restrict _ _ _ _ []); [apply reads_ok_nil|].
      intros p Hp HpD. exfalso. rewrite <- rprobes_pass_probes in Hp.
      apply in_drop_path in HpD. destruct HpD as [HpD Hne].
      destruct (HD p HpD) as (f' & Hs' & Hdep).
      assert (Hff : f' <> f).
      { intros ->. apply Hne. destruct Hs' as [Ho' _]. congruence. }
      destruct (Hx f' p Hs' Hff) as (_ & H1 & H2).
      destruct b; [exact (H1 p (out_in_fp w0 f' p (proj1 Hs')) Hp)|].
      apply (Hdep eq_refl). apply (H2 p (out_in_fp w0 f' p (proj1 Hs')) Hp).
  - cbn [needed_safe]. intros out raw Ho Er. pose proof (Hfacts out raw Ho Er) as Hsrc.
    destruct (src_sameT w0 HS w f out A Hsrc) as (E0 & Ei & Ew & Hca & Esd & Ep).
    destruct (HS f out Hsrc) as (Hn & Hno & Hto & Hc & _ & Hx).
    destruct (HN f out Hsrc) as (Hwt & Hinc & Htmp).
    split; [exact Hn|]. split; [|split; [|rewrite Ew; exact Hto]].
    + rewrite <- (write_target_dirs (w_fs w0) (w_fs w) out (proj2 A)). exact Hwt.
    + rewrite Ei. intros p Hp ->.
      assert (Hfin : In out (probes false Build f (items_of Build w0 f)) -> False).
      { intros H. apply probes_needed in H. destruct H as [H|[H|H]]; [exact (Hinc H)|exact (Htmp H)|].
        destruct (remove_txtpp_shape f out Ho) as (dir & n & m & Es & Eo).
        assert (Hpar : parent f = dir) by (unfold parent; rewrite Es; apply removelast_last).
        rewrite Hpar in H, Hn. rewrite (lex_normalize_normal dir Hn) in H. rewrite Eo in H.
        apply (f_equal (@length name)) in H. rewrite app_length in H. simpl in H. lia. }
      destruct b; [|exact (Hfin Hp)].
      apply (probes_first_spec Build f _ out ltac:(discriminate)) in Hp. destruct Hp as [Hp|(d & fol & Hin & Hp)].
      * specialize (Hc out Hp). rewrite (Hto out (out_in_fp w0 f out Ho)) in Hc. discriminate.
      * apply Hfin. apply (probes_in false Build f d fol _ out Hin). exact Hp.
Qed.

(* the invariant while the coordinator is running *)
Definition Jn (D' : list path) (g : gstate) (w : world) : Prop :=
  agree nt (w_fs w0) (w_fs w) /\
  (forall p, In p D' -> exists f, is_src f p /\ In f (seen (gs g)) /\ ~ finished g f) /\
  (forall a ds, In (a, ds) (reported g) -> ds = sdeps w0 a).
(* ... and while the pool is drained after an error: F is the set of the files that were finished at that point *)
Definition Jnd (D' : list path) (l : list task) (w : world) : Prop :=
  agree nt (w_fs w0) (w_fs w) /\
  exists F : list path,
    (forall p, In p D' -> exists f, is_src f p /\ ~ In f F) /\
    (forall f q, In (TPp f false) l -> In q (sdeps w0 f) -> In q F) /\
    (forall h b, In (TPp h b) l -> ~ In h F).

Lemma Jn_safe D' g w t : greach files dirs g -> Jn D' g w -> In t (inflight (gs g)) ->
  stale_safeT w0 D' t w /\ needed_safe t w.
Proof.
  intros R (A & HD & Hrep) Hin. destruct t as [d|f b]; [split; exact I|].
  apply safe_intro; [exact A|]. intros p Hp. destruct (HD p Hp) as (f' & Hs' & _ & Hnf).
  exists f'. split; [exact Hs'|]. intros -> Hdep. apply Hnf.
  destruct (final_inflight_reported files dirs g f R Hin) as [ds Hd].
  pose proof (Hrep f ds Hd) as ->.
  apply (final_pass_deps_finished files dirs g R f f' Hin). exists (sdeps w0 f). split; assumption.
Qed.

Lemma Jnd_safe D' l w t : Jnd D' l w -> In t l -> stale_safeT w0 D' t w /\ needed_safe t w.
Proof.
  intros (A & F & HD & Hdeps & Hl) Hin. destruct t as [d|f b]; [split; exact I|].
  apply safe_intro; [exact A|]. intros p Hp. destruct (HD p Hp) as (f' & Hs' & HnF).
  exists f'. split; [exact Hs'|]. intros -> Hdep. apply HnF. apply (Hdeps f f' Hin Hdep).
Qed.

Lemma agree_step w t r w' : agree nt (w_fs w0) (w_fs w) ->
  exec_task orc cfgB base t w = Some (r, w') -> agree nt (w_fs w0) (w_fs w').
Proof.
  intros A Hex. apply exec_task_world in Hex. subst w'. destruct t as [d|h b]; [exact A|].
  apply (agree_trans nt _ (w_fs w)); [exact A|].
  apply (pass_effectT orc cfg base w0 HS w h b A).
Qed.

Lemma Jn_step D' g w t rest r w' s2 :
  greach files dirs g -> Jn D' g w -> Permutation (inflight (gs g)) (t :: rest) ->
  exec_task orc cfgB base t w = Some (r, w') -> handle (with_inflight (gs g) rest) r = Continue s2 ->
  Jn (updN w0 D' t r) (mkG s2 (report t r (reported g)) (history g ++ [t])) w'.
Proof.
  intros R (A & HD & Hrep) HP Hex Hh.
  set (g2 := mkG s2 (report t r (reported g)) (history g ++ [t])).
  assert (Hans := exec_task_answers orc cfgB base _ _ _ _ Hex).
  assert (Hstep : gstep g g2) by (apply (gstep_continue g t rest r s2); assumption).
  assert (Ht : In t (inflight (gs g))).
  { eapply Permutation_in; [apply Permutation_sym; exact HP|]. left. reflexivity. }
  assert (Hfin2 : forall f, finished g2 f -> finished g f \/ r = RPp f (Some POk)).
  { intros f Hf. unfold finished in *. cbn [g2 gs] in Hf. apply pmem_In in Hf.
    destruct (inv_reach _ _ _ R) as [HPi _].
    destruct (handle_fin (with_inflight (gs g) rest) r s2 f (i_dm HPi) Hh Hf) as [H|H]; [left; apply pmem_In; exact H|right; exact H]. }
  split; [eapply agree_step; eauto|]. split.
  - intros p Hp. destruct (in_updN _ _ _ _ _ Hp) as [H1|H1].
    + destruct (in_pending_src _ _ _ _ H1) as (h & b & g' & x & Et & Er & Hx & Hs). subst t r.
      exists h. split; [exact Hs|]. split.
      * apply (gstep_seen g g2 h Hstep). apply (inflight_seen files dirs g (TPp h b) R Ht).
      * intros Hf. destruct (Hfin2 h Hf) as [Hold|Hnew].
        -- exact (finished_not_inflight files dirs g R h b Hold Ht).
        -- inversion Hnew; subst. apply Hx. reflexivity.
    + destruct (HD p H1) as (f & Hs & Hseen & Hnf). exists f. split; [exact Hs|]. split.
      * apply (gstep_seen g g2 f Hstep Hseen).
      * intros Hf. destruct (Hfin2 f Hf) as [Hold|Hnew]; [exact (Hnf Hold)|].
        subst r. destruct t as [d|f0 b0]; [destruct Hans|]. destruct Hans as [<- _].
        unfold updN in Hp. apply in_app_or in Hp. destruct Hp as [Hp|Hp].
        -- cbn [pending_src pending_out] in Hp. destruct (read_file (w_fs w0) f); destruct Hp.
        -- cbn [stale_updT] in Hp. apply in_drop_paths in Hp. apply (proj2 Hp). apply (out_in_fp w0 f p (proj1 Hs)).
  - cbn [g2 reported]. intros a ds Hin.
    destruct t as [d|f [|]]; cbn [report] in Hin; try (apply (Hrep a ds Hin)).
    destruct r as [y|g' [[|ds']|]]; try (apply (Hrep a ds Hin)).
    destruct Hin as [Hin|Hin]; [|apply (Hrep a ds Hin)]. inversion Hin; subst a ds'. clear Hin.
    rewrite exec_task_pp in Hex. cbn [with_mode cfg_mode cfg_trailing] in Hex. cbv zeta in Hex.
    destruct (pp_run orc Build base f true (cfg_trailing cfg) w) as [a|ds' a|k a|] eqn:E; cbn in Hex; try discriminate.
    inversion Hex; subst g' ds' w'. clear Hex.
    destruct (pp_run_deps_readable _ _ _ _ _ _ _ _ _ E) as (raw & out & Er & Ho).
    pose proof (source_in_world w0 w f out raw A Ho Er) as Hsrc.
    destruct (src_sameT w0 HS w f out A Hsrc) as (_ & _ & _ & Hca & Esd & _).
    destruct (first_pass_reports_exactly orc Build base f (cfg_trailing cfg) w ds a ltac:(discriminate) Hca E) as (_ & H2 & _).
    rewrite H2. exact Esd.
Qed.

Lemma Jn_fail D' g w t rest r w' :
  greach files dirs g -> Jn D' g w -> Permutation (inflight (gs g)) (t :: rest) ->
  exec_task orc cfgB base t w = Some (r, w') -> Jnd (updN w0 D' t r) rest w'.
Proof.
  intros R (A & HD & Hrep) HP Hex.
  assert (Ht : In t (inflight (gs g))).
  { eapply Permutation_in; [apply Permutation_sym; exact HP|]. left. reflexivity. }
  assert (Hrest : forall x, In x rest -> In x (inflight (gs g))).
  { intros x Hx. eapply Permutation_in; [apply Permutation_sym; exact HP|]. right. exact Hx. }
  split; [eapply agree_step; eauto|]. exists (fin (dm (gs g))). split; [|split].
  - intros p Hp. destruct (in_updN _ _ _ _ _ Hp) as [H1|H1].
    + destruct (in_pending_src _ _ _ _ H1) as (h & b & g' & x & Et & Er & Hx & Hs). subst t r.
      exists h. split; [exact Hs|]. intros Hf. apply pmem_In in Hf.
      exact (finished_not_inflight files dirs g R h b Hf Ht).
    + destruct (HD p H1) as (f & Hs & _ & Hnf). exists f. split; [exact Hs|].
      intros Hf. apply Hnf. apply pmem_In. exact Hf.
  - intros f q Hin Hq. apply Hrest in Hin.
    destruct (final_inflight_reported files dirs g f R Hin) as [ds Hd].
    pose proof (Hrep f ds Hd) as ->. apply pmem_In.
    apply (final_pass_deps_finished files dirs g R f q Hin). exists (sdeps w0 f). split; assumption.
  - intros h b Hin Hf. apply Hrest in Hin. apply pmem_In in Hf.
    exact (finished_not_inflight files dirs g R h b Hf Hin).
Qed.

Lemma Jnd_step D' l w t r w' l' :
  Jnd D' l w -> In t l -> exec_task orc cfgB base t w = Some (r, w') -> (forall x, In x l' -> In x l) ->
  Jnd (updN w0 D' t r) l' w'.
Proof.
  intros (A & F & HD & Hdeps & Hl) Ht Hex Hsub.
  split; [eapply agree_step; eauto|]. exists F. split; [|split].
  - intros p Hp. destruct (in_updN _ _ _ _ _ Hp) as [H1|H1]; [|apply (HD p H1)].
    destruct (in_pending_src _ _ _ _ H1) as (h & b & g' & x & Et & Er & Hx & Hs). subst t r.
    exists h. split; [exact Hs|apply (Hl h b Ht)].
  - intros f q Hin Hq. apply (Hdeps f q (Hsub _ Hin) Hq).
  - intros h b Hin. apply (Hl h b (Hsub _ Hin)).
Qed.

(* T1 at the level of the coordinator loop: the two runs start in two worlds wB, wN that have the sources and
   directories of w0 and cannot be told apart (`stale_rel []`) *)
Theorem needed_loop_equals_build_loop fuel sched wB wN :
  stale_rel [] wB wN -> agree nt (w_fs w0) (w_fs wB) ->
  let g0 := ginit files dirs in
  let xb := run_loop orc cfgB base fuel sched (gs g0) wB [] in
  let xn := run_loop orc cfgN base fuel sched (gs g0) wN [] in
  verdict_of xb = verdict_of xn /\ trace_of xb = trace_of xn /\ state_of xb = state_of xn /\
  stale_rel (pending_after w0 (trace_of xb)) (world_of xb) (world_of xn) /\
  (verdict_of xb = VOk -> w_eq (world_of xb) (world_of xn)).
Proof.
  intros HR A g0 xb xn.
  destruct (loop_sim2 orc cfgB cfgN base files dirs (list path) stale_rel (updN w0) Jn Jnd (fun _ _ => True)
              (fun _ _ _ _ _ _ _ _ _ _ => I) (fun _ _ _ _ _ _ _ _ _ => I)) with (fuel := fuel) (i := @nil path) (sched := sched)
              (g := g0) (w1 := wB) (w2 := wN) (tr := @nil (task * result))
    as (Hv & Ht & Hs & added & Ea & HRa & _ & Hok).
  - intros i g w1 w2 t r w1' R HJ HRel Hin Hex. destruct (Jn_safe i g w1 t R HJ Hin) as [S1 S2].
    apply (needed_build_step orc cfg base w0 i t w1 w2 r w1' HRel S1 S2 Hex).
  - intros. eapply Jn_step; eauto.
  - intros. eapply Jn_fail; eauto.
  - intros i l w1 w2 t r w1' HJ HRel Hin Hex. destruct (Jnd_safe i l w1 t HJ Hin) as [S1 S2].
    apply (needed_build_step orc cfg base w0 i t w1 w2 r w1' HRel S1 S2 Hex).
  - intros. eapply Jnd_step; eauto.
  - apply greach_init.
  - split; [exact A|]. split; [intros p []|intros a ds []].
  - exact HR.
  - fold xb xn in Hv, Ht, Hs, Ea, HRa, Hok. cbn [app] in Ea.
    split; [exact Hv|]. split; [exact Ht|]. split; [exact Hs|]. split.
    + unfold pending_after. rewrite Ea. exact HRa.
    + intros Hvok. destruct (Hok Hvok) as (g' & R' & Eg & Hfl & Hfin & (_ & HD & _)).
      apply wR_noX. apply (wR_weaken (in_paths (upd_trace (list path) (updN w0) [] added))); [|apply (sr_agree _ _ _ HRa)].
      intros p _. apply in_paths_false. intros Hp. destruct (HD p Hp) as (f & _ & Hseen & Hnf).
      apply Hnf. apply Hfin. unfold is_seen. apply pmem_In. exact Hseen.
Qed.
End NeededInv.

(* ================================================================================================
   T1 for whole runs.
   ================================================================================================ *)
(* general form: the static hypotheses are on a tree w0, the two runs start in a world w that has the `.txtpp` files
   and the directories of w0 (e.g. w0 after some outputs and temp files have been built) *)
Theorem needed_run_equals_build_run_from orc cfg fuel sched w0 w :
  sched_ok_temps w0 -> needed_ok w0 -> agree nt (w_fs w0) (w_fs w) -> raw_ok w ->
  let xn := txtpp_run orc (with_mode cfg InMemoryBuild) fuel sched w in
  let xb := txtpp_run orc (with_mode cfg Build) fuel sched w in
  verdict_of xn = verdict_of xb /\ trace_of xn = trace_of xb /\ state_of xn = state_of xb /\
  stale_rel (pending_after w0 (trace_of xb)) (world_of xb) (world_of xn) /\
  (verdict_of xb = VOk -> w_eq (world_of xn) (world_of xb)).
Proof.
  intros HS HN A N. unfold txtpp_run. cbn [with_mode cfg_threads cfg_base cfg_inputs].
  assert (T : forall v, let x := (v, w, @nil (task * result), c_init) in
            verdict_of x = verdict_of x /\ trace_of x = trace_of x /\ state_of x = state_of x /\
            stale_rel (pending_after w0 (trace_of x)) (world_of x) (world_of x) /\
            (verdict_of x = VOk -> w_eq (world_of x) (world_of x))).
  { intros v. cbn. split; [reflexivity|]. split; [reflexivity|]. split; [reflexivity|].
    split; [apply (stale_rel_refl _ _ N)|]. intros _ p. reflexivity. }
  destruct (cfg_threads cfg =? 0); [apply T|].
  destruct (os_resolve (w_fs w) (cfg_base cfg)) as [base|]; [|apply T].
  destruct (resolve_inputs (w_fs w) base (cfg_inputs cfg) [] []) as [[files dirs]|]; [|apply T].
  destruct (needed_loop_equals_build_loop orc cfg base w0 HS HN files dirs fuel sched w w (stale_rel_refl [] w N) A)
    as (Hv & Ht & Hs & HR & Hok).
  cbv zeta. split; [symmetry; exact Hv|]. split; [symmetry; exact Ht|]. split; [symmetry; exact Hs|].
  split; [exact HR|]. intros Hvok p. symmetry. apply (Hok Hvok p).
Qed.

(* T1.  Same initial world, same schedule, same fuel: a `--needed` run and a Build run have the same verdict, the same
   trace and the same final coordinator state; the final worlds differ at most on the outputs that are still pending
   (`in_pending_after`: outputs of sources of which some pass did not report success — Build has truncated them,
   `--needed` has not touched them), they have the same directories and list the same `.txtpp` files; and after a
   successful run the two trees are the same. *)
Theorem needed_run_equals_build_run orc cfg fuel sched w :
  raw_ok w -> sched_ok_temps w -> needed_ok w ->
  let xn := txtpp_run orc (with_mode cfg InMemoryBuild) fuel sched w in
  let xb := txtpp_run orc (with_mode cfg Build) fuel sched w in
  verdict_of xn = verdict_of xb /\ trace_of xn = trace_of xb /\ state_of xn = state_of xb /\
  stale_rel (pending_after w (trace_of xb)) (world_of xb) (world_of xn) /\
  (verdict_of xb = VOk -> w_eq (world_of xn) (world_of xb)).
Proof.
  intros N HS HN. apply needed_run_equals_build_run_from; try assumption. apply agree_refl.
Qed.

(* ... and with two different schedules (and amounts of fuel), when both runs succeed *)
Corollary needed_run_equals_build_run_any_schedule orc cfg fuelN schedN fuelB schedB w :
  raw_ok w -> sched_ok_temps w -> needed_ok w ->
  let xn := txtpp_run orc (with_mode cfg InMemoryBuild) fuelN schedN w in
  let xb := txtpp_run orc (with_mode cfg Build) fuelB schedB w in
  verdict_of xn = VOk -> verdict_of xb = VOk -> w_eq (world_of xn) (world_of xb).
Proof.
  intros N HS HN xn xb Hvn Hvb.
  destruct (needed_run_equals_build_run orc cfg fuelN schedN w N HS HN) as (Hv & _ & _ & _ & Hok).
  fold xn in Hv, Hok. rewrite Hvn in Hv. symmetry in Hv.
  intros p. rewrite (Hok Hv p).
  apply (schedule_independence_temps orc (with_mode cfg Build) fuelN fuelB schedN schedB w eq_refl N HS Hv Hvb p).
Qed.

(* ---- non-vacuity: the tree of ScheduleTempFacts PART 6 (d/a.txtpp: `temp t`, `include t`; d/b.txtpp includes the
   output of a.txtpp: two passes) ---- *)
Lemma t_src f out : is_source t_w f out -> (f = t_a /\ out = t_aout) \/ (f = t_b /\ out = t_bout).
Proof.
  intros [Ho [raw Er]]. destruct (t_sources f raw Er) as [-> | ->]; vm_compute in Ho; inversion Ho; auto.
Qed.
Lemma t_needed_ok : needed_ok t_w.
Proof.
  intros f out Hs. destruct (t_src f out Hs) as [[-> ->]|[-> ->]].
  - split; [vm_compute; discriminate|]. split; vm_compute; intuition discriminate.
  - split; [vm_compute; discriminate|]. split; vm_compute; intuition discriminate.
Qed.

Example needed_run_equals_build_run_nonvacuous :
  (* every schedule, every fuel *)
  (forall fuel sched,
     let xn := txtpp_run cx_orc (with_mode t_cfg InMemoryBuild) fuel sched t_w in
     let xb := txtpp_run cx_orc (with_mode t_cfg Build) fuel sched t_w in
     verdict_of xn = verdict_of xb /\ trace_of xn = trace_of xb /\
     (verdict_of xb = VOk -> w_eq (world_of xn) (world_of xb))) /\
  (* two schedules: success, four tasks (a scan, a.txtpp once, b.txtpp twice); and an interrupted run in which the worlds differ *)
  (forall sched, sched = [] \/ sched = [0; 1; 0; 0]%nat ->
     let xn := txtpp_run cx_orc (with_mode t_cfg InMemoryBuild) 9 sched t_w in
     verdict_of xn = VOk /\ length (trace_of xn) = 4%nat /\
     fs_get (w_fs (world_of xn)) t_bout = Some (File [104; 101; 108; 108; 111; 120; 122])) /\
  (let xn := txtpp_run cx_orc (with_mode t_cfg InMemoryBuild) 2 [0; 1]%nat t_w in
   let xb := txtpp_run cx_orc (with_mode t_cfg Build) 2 [0; 1]%nat t_w in
   verdict_of xn = VFuel /\ pending_after t_w (trace_of xb) = [t_bout] /\
   fs_get (w_fs (world_of xn)) t_bout = None /\ fs_get (w_fs (world_of xb)) t_bout = Some (File [])).
Proof.
  split; [|split].
  - intros fuel sched.
    destruct (needed_run_equals_build_run cx_orc t_cfg fuel sched t_w t_raw_ok t_sched_ok t_needed_ok) as (Hv & Ht & _ & _ & Hok).
    cbv zeta. auto.
  - intros sched [-> | ->]; vm_compute; auto.
  - vm_compute. auto.
Qed.

(* ================================================================================================
   Counterexamples: T1 without `needed_ok` (the other hypotheses hold).
   ================================================================================================ *)
(* (1) An output path that is a directory.   d/a.txtpp = "TXTPP#include b\n", d/b.txtpp = "x\n", and d/a is a DIRECTORY.
   Build fails at once on d/a.txtpp (`File::create d/a`: KOpen) and only drains d/b.txtpp; `--needed` does not look at
   d/a before the end of the final pass: its first pass reports the dependency, d/b.txtpp is built, the final pass of
   d/a.txtpp fails (KRead).  The traces differ (4 tasks against 5), and with fuel 4 so do the verdicts. *)
Definition c1_araw : str := [84; 88; 84; 80; 80; 35; 105; 110; 99; 108; 117; 100; 101; 32; 98; 10].
Definition c1_fs : fs := [([[100]], Dir); (t_a, File c1_araw); (t_b, File [120; 10]); (t_aout, Dir)].
Definition c1_w : world := mkW c1_fs [].

Lemma c1_sources f raw : read_file (w_fs c1_w) f = Some raw -> f = t_a \/ f = t_b.
Proof.
  unfold read_file, c1_w, c1_fs. cbn [w_fs]. intros Er.
  destruct f as [|x f']; [cbn in Er; discriminate|]. cbn [fs_get] in Er.
  destruct (path_eqb [[100]] (x :: f')) eqn:E1; [discriminate|].
  destruct (path_eqb t_a (x :: f')) eqn:E2; [left; apply SinkFacts.path_eqb_eq in E2; symmetry; exact E2|].
  destruct (path_eqb t_b (x :: f')) eqn:E3; [right; apply SinkFacts.path_eqb_eq in E3; symmetry; exact E3|].
  destruct (path_eqb t_aout (x :: f')); discriminate.
Qed.
Lemma c1_sched_ok : sched_ok_temps c1_w.
Proof.
  assert (Hsrc : forall f out, is_source c1_w f out -> (f = t_a /\ out = t_aout) \/ (f = t_b /\ out = t_bout)).
  { intros f out [Ho [raw Er]]. destruct (c1_sources f raw Er) as [-> | ->]; vm_compute in Ho; inversion Ho; auto. }
  intros f out Hs. destruct (Hsrc f out Hs) as [[-> ->]|[-> ->]].
  - split; [repeat constructor|]. split; [vm_compute; reflexivity|]. split; [|split; [|split]].
    + intros p Hp. vm_compute in Hp. destruct Hp as [<-|[<-|[]]]; vm_compute; reflexivity.
    + intros c Hc. vm_compute in Hc. destruct Hc as [<-|[]]. vm_compute. reflexivity.
    + solve_ro.
    + intros g outg Hg Hne. destruct (Hsrc g outg Hg) as [[-> ->]|[-> ->]]; [congruence|].
      split; [|split]; intros p Hp; vm_compute in Hp; destruct Hp as [<-|[<-|[]]]; vm_compute; intuition discriminate.
  - split; [repeat constructor|]. split; [vm_compute; reflexivity|]. split; [|split; [|split]].
    + intros p Hp. vm_compute in Hp. destruct Hp as [<-|[<-|[]]]; vm_compute; reflexivity.
    + intros c Hc. vm_compute in Hc. destruct Hc.
    + solve_ro.
    + intros g outg Hg Hne. destruct (Hsrc g outg Hg) as [[-> ->]|[-> ->]]; [|congruence].
      split; [|split]; intros p Hp; vm_compute in Hp; destruct Hp as [<-|[<-|[]]]; vm_compute; intuition discriminate.
Qed.

Example needed_run_cex_output_is_directory :
  raw_ok c1_w /\ sched_ok_temps c1_w /\ write_target (w_fs c1_w) t_aout = None /\
  (let xn := txtpp_run cx_orc (with_mode t_cfg InMemoryBuild) 4 [] c1_w in
   let xb := txtpp_run cx_orc (with_mode t_cfg Build) 4 [] c1_w in
   verdict_of xn = VFuel /\ verdict_of xb = VErr) /\
  (let xn := txtpp_run cx_orc (with_mode t_cfg InMemoryBuild) 9 [] c1_w in
   let xb := txtpp_run cx_orc (with_mode t_cfg Build) 9 [] c1_w in
   verdict_of xn = VErr /\ verdict_of xb = VErr /\ length (trace_of xn) = 5%nat /\ length (trace_of xb) = 4%nat /\
   In (TPp t_a true, RPp t_a (Some (PDeps [t_b]))) (trace_of xn) /\ In (TPp t_a true, RPp t_a None) (trace_of xb)).
Proof.
  split; [unfold raw_ok; cbn; repeat constructor; cbn; intuition discriminate|].
  split; [exact c1_sched_ok|]. split; [vm_compute; reflexivity|]. split; [vm_compute; auto|].
  vm_compute. intuition.
Qed.

(* (2) A `temp` directive that names the output of its own source.   d/a.txtpp = "// TXTPP#temp a\n// hello\nx\n".
   Build creates (truncates) d/a, the temp directive overwrites it with "hello", and the text line is APPENDED: d/a = "hellox".
   `--needed` lets the temp directive create d/a = "hello", keeps the output in memory and replaces the file at the end:
   d/a = "x".  Same verdict (VOk), same trace, different trees: the two modes really differ on such a project. *)
Definition c2_araw : str :=
  [47; 47; 32; 84; 88; 84; 80; 80; 35; 116; 101; 109; 112; 32; 97; 10; 47; 47; 32; 104; 101; 108; 108; 111; 10; 120; 10].
Definition c2_fs : fs := [([[100]], Dir); (t_a, File c2_araw)].
Definition c2_w : world := mkW c2_fs [].

Lemma c2_sources f raw : read_file (w_fs c2_w) f = Some raw -> f = t_a.
Proof.
  unfold read_file, c2_w, c2_fs. cbn [w_fs]. intros Er.
  destruct f as [|x f']; [cbn in Er; discriminate|]. cbn [fs_get] in Er.
  destruct (path_eqb [[100]] (x :: f')) eqn:E1; [discriminate|].
  destruct (path_eqb t_a (x :: f')) eqn:E2; [apply SinkFacts.path_eqb_eq in E2; symmetry; exact E2|discriminate].
Qed.
Lemma c2_sched_ok : sched_ok_temps c2_w.
Proof.
  assert (Hsrc : forall f out, is_source c2_w f out -> f = t_a /\ out = t_aout).
  { intros f out [Ho [raw Er]]. rewrite (c2_sources f raw Er) in *. vm_compute in Ho; inversion Ho; auto. }
  intros f out Hs. destruct (Hsrc f out Hs) as [-> ->].
  split; [repeat constructor|]. split; [vm_compute; reflexivity|]. split; [|split; [|split]].
  - intros p Hp. vm_compute in Hp. destruct Hp as [<-|[<-|[<-|[]]]]; vm_compute; reflexivity.
  - intros c Hc. vm_compute in Hc. destruct Hc.
  - solve_ro.
  - intros g outg Hg Hne. destruct (Hsrc g outg Hg) as [-> ->]. congruence.
Qed.

Example needed_run_cex_temp_names_own_output :
  raw_ok c2_w /\ sched_ok_temps c2_w /\ own_temps c2_w t_a = [t_aout] /\
  let xn := txtpp_run cx_orc (with_mode t_cfg InMemoryBuild) 9 [] c2_w in
  let xb := txtpp_run cx_orc (with_mode t_cfg Build) 9 [] c2_w in
  verdict_of xn = VOk /\ verdict_of xb = VOk /\ trace_of xn = trace_of xb /\
  fs_get (w_fs (world_of xn)) t_aout = Some (File [120]) /\
  fs_get (w_fs (world_of xb)) t_aout = Some (File [104; 101; 108; 108; 111; 120]).
Proof.
  split; [unfold raw_ok; cbn; repeat constructor; cbn; intuition discriminate|].
  split; [exact c2_sched_ok|]. split; [vm_compute; reflexivity|]. vm_compute. intuition.
Qed.
