(* ExtraFactsD.v — GOAL D (C14): tag substitution is an independent left-to-right scanner.
   `inject` (collect the first occurrence of every stored tag, stable-sort by index, walk the sorted list skipping
   occurrences that start inside a previous substitution) computes, for a prefix-free store, exactly what a one-pass
   left-to-right scanner computes - same output, same remaining store (equal as lists, not only up to permutation). *)
Require Import Txtpp.Str Txtpp.Tags.
Require Import Txtpp.proofs.StrFacts Txtpp.proofs.TagsFacts.
From Coq Require Import Lia Permutation.

Local Open Scope nat_scope.

(* ---------------------------------------------------------------- the scanner *)
(* "the FIRST occurrence of the tag name k in the line is at offset i" *)
Definition first_at (line : str) (i : nat) (kv : str * str) : bool :=
  match find_sub (fst kv) line with Some j => Nat.eqb j i | None => false end.

(* scan le line st i skip rest: `rest` is the suffix of `line` at offset i; `skip` bytes of it are still covered by
   the tag name substituted last (they are dropped without being examined: tags whose first occurrence falls inside
   are left alone).  With skip = 0: if some stored tag (k, v) has its first occurrence exactly at i, emit its content
   (line endings normalised), delete it from the store, and jump to i + length k; otherwise copy the byte at i.
   The empty tag name (first occurrence: offset 0) consumes nothing: its content is emitted, then the byte at the
   same offset is copied without looking for tags there again (in a prefix-free store it is the only tag anyway).
   Structural recursion on `rest`. *)
Fixpoint scan (le line : str) (st : list (str * str)) (i skip : nat) (rest : str) {struct rest}
  : str * list (str * str) :=
  match rest with
  | [] => match skip with
          | S _ => ([], st)                                   (* unreachable: a tag name never runs past the end *)
          | O => match find (first_at line i) st with
                 | Some (k, v) => (replace_line_ending v le false, store_remove k st)   (* only k = [] on the empty line *)
                 | None => ([], st)
                 end
          end
  | c :: r =>
    match skip with
    | S n => scan le line st (S i) n r
    | O => match find (first_at line i) st with
           | Some (k, v) =>
             let st' := store_remove k st in
             match k with
             | [] => let '(o, s) := scan le line st' (S i) 0 r in (replace_line_ending v le false ++ c :: o, s)
             | _ :: k' => let '(o, s) := scan le line st' (S i) (length k') r in (replace_line_ending v le false ++ o, s)
             end
           | None => let '(o, s) := scan le line st (S i) 0 r in (c :: o, s)
           end
    end
  end.

Definition scan_line (le line : str) (st : list (str * str)) : str * list (str * str) := scan le line st 0 0 line.

(* ---------------------------------------------------------------- examples *)
Open Scope N_scope.
(* tags "bc" -> "Z", "d" -> "W", "ab" -> "X<LF>Y"; line "xabcdabd": ab at 1, bc at 2 (inside ab: left alone), d at 4 *)
Definition exD_store : list (str * str) := [([98;99], [90]); ([100], [87]); ([97;98], [88;10;89])].
Definition exD_line : str := [120;97;98;99;100;97;98;100].
Example exD_scan :
  inject (mkTags None exD_store) exD_line [13;10] = Some ([120; 88;13;10;89; 99; 87; 97;98;100], mkTags None [([98;99], [90])])
  /\ scan_line [13;10] exD_line exD_store = ([120; 88;13;10;89; 99; 87; 97;98;100], [([98;99], [90])]).
Proof. split; vm_compute; reflexivity. Qed.
(* the empty tag name: substituted at offset 0, consumes nothing; also on the empty line *)
Example exD_empty_name :
  inject (mkTags None [([], [90;10])]) exD_line [13;10] = Some ([90;13;10] ++ exD_line, mkTags None [])
  /\ scan_line [13;10] exD_line [([], [90;10])] = ([90;13;10] ++ exD_line, [])
  /\ inject (mkTags None [([], [90;10])]) [] [13;10] = Some ([90;13;10], mkTags None [])
  /\ scan_line [13;10] [] [([], [90;10])] = ([90;13;10], []).
Proof. repeat split; vm_compute; reflexivity. Qed.
(* prefix_free is needed: with the (unreachable) store {"" -> "Z", "x" -> "Q"} the sorted-list walk of `inject`
   substitutes both tags at offset 0, the scanner only the first *)
Example exD_not_prefix_free :
  inject (mkTags None [([], [90]); ([120], [81])]) exD_line [10] = Some ([90;81;97;98;99;100;97;98;100], mkTags None [])
  /\ scan_line [10] exD_line [([], [90]); ([120], [81])] = ([90;120;97;98;99;100;97;98;100], [([120], [81])]).
Proof. split; vm_compute; reflexivity. Qed.
Close Scope N_scope.

(* ---------------------------------------------------------------- list helpers *)
Lemma skipn_cons_nth {A} (l : list A) : forall i c r, skipn i l = c :: r -> skipn (S i) l = r.
Proof.
  induction l as [|x l IH]; intros i c r H.
  - destruct i; discriminate.
  - destruct i as [|i]; cbn [skipn] in *.
    + now inversion H.
    + now apply (IH i c r).
Qed.

Lemma skipn_cons_lt {A} (l : list A) i c r : skipn i l = c :: r -> i < length l.
Proof.
  intros H. destruct (Nat.lt_ge_cases i (length l)) as [Hl|Hl]; [exact Hl|].
  rewrite skipn_all2 in H by exact Hl. discriminate.
Qed.
Lemma skipn_nil_ge {A} (l : list A) i : skipn i l = [] -> length l <= i.
Proof.
  intros H. pose proof (skipn_length i l) as E. rewrite H in E. cbn in E. lia.
Qed.

Lemma skipn_add {A} (l : list A) : forall b a, skipn a (skipn b l) = skipn (a + b) l.
Proof.
  induction l as [|x l IH]; intros b a.
  - now rewrite !skipn_nil.
  - destruct b as [|b]; [now rewrite Nat.add_0_r|].
    rewrite Nat.add_succ_r. cbn [skipn]. apply IH.
Qed.

(* the pending bytes [last, i) grow by the byte at i *)
Lemma pending_snoc {A} (l : list A) last i c r :
  last <= i -> skipn i l = c :: r ->
  firstn (S i - last) (skipn last l) = firstn (i - last) (skipn last l) ++ [c].
Proof.
  intros Hle H.
  assert (E : skipn last l = firstn (i - last) (skipn last l) ++ c :: r).
  { rewrite <- H. replace i with ((i - last) + last) at 2 by lia.
    rewrite <- skipn_add. now rewrite firstn_skipn. }
  assert (Hlen : length (firstn (i - last) (skipn last l)) = i - last).
  { apply firstn_length_le. rewrite skipn_length. apply skipn_cons_lt in H. lia. }
  rewrite E at 1.
  replace (S i - last) with (length (firstn (i - last) (skipn last l)) + 1) by lia.
  rewrite firstn_app_2. reflexivity.
Qed.

(* ---------------------------------------------------------------- the invariant *)
Section Scan.
Variable le line : str.
Notation rm := (fun s k => store_remove k s).

(* L is the strictly sorted list of the first occurrences, at offsets >= i, of the tags of st *)
Definition Inv (st : list (str * str)) (i : nat) (L : list occ) : Prop :=
  ssorted L /\ forall x, In x L <-> (In x (occurrences st line) /\ i <= fst x).

Lemma first_at_true i k v : first_at line i (k, v) = true <-> find_sub k line = Some i.
Proof.
  unfold first_at. cbn [fst]. destruct (find_sub k line) as [j|]; [|split; discriminate].
  rewrite Nat.eqb_eq. split; [intros ->; reflexivity | intros H; now inversion H].
Qed.

Lemma ssorted_head x L : ssorted (x :: L) -> forall y, In y L -> fst x < fst y.
Proof. intros H. now inversion H. Qed.

(* a tag found at i is the head of the list *)
Lemma Inv_found st i L k v :
  Inv st i L -> In (k, v) st -> find_sub k line = Some i -> exists L', L = (i, (k, v)) :: L'.
Proof.
  intros [HS HI] Hin F.
  assert (M : In (i, (k, v)) L). { apply HI. split; [now apply In_occurrences | cbn; lia]. }
  destruct L as [|x L']; [destruct M|]. exists L'. f_equal.
  destruct M as [M|M]; [exact M|].
  inversion HS as [|? ? Hx _]; subst. specialize (Hx _ M). cbn [fst] in Hx.
  assert (Hxi : i <= fst x). { apply (HI x). now left. }
  lia.
Qed.

(* no tag at i: the same list serves from i+1 *)
Lemma Inv_none st i L :
  Inv st i L -> find (first_at line i) st = None -> Inv st (S i) L.
Proof.
  intros [HS HI] Hn. split; [exact HS|]. intros x. rewrite HI. split.
  - intros [H1 H2]. split; [exact H1|].
    destruct x as [j [k v]]. cbn [fst] in *. apply In_occurrences in H1 as [Hin F].
    assert (j <> i).
    { intros ->. pose proof (find_none _ _ Hn (k, v) Hin) as Hf.
      rewrite (proj2 (first_at_true i k v) F) in Hf. discriminate. }
    lia.
  - intros [H1 H2]. split; [exact H1 | lia].
Qed.

(* dropping the head at i, possibly changing the store, as long as the occurrences beyond i are the same *)
Lemma Inv_tail st st' i kv L :
  Inv st i ((i, kv) :: L) ->
  (forall x, i < fst x -> (In x (occurrences st' line) <-> In x (occurrences st line))) ->
  Inv st' (S i) L.
Proof.
  intros [HS HI] Hsame. inversion HS as [|? ? Hx HS']; subst. split; [exact HS'|].
  intros x. split.
  - intros Hin. pose proof (Hx x Hin) as Hlt. cbn [fst] in Hlt.
    split; [|lia]. apply Hsame; [lia|]. apply (HI x). now right.
  - intros [H1 H2]. apply Hsame in H1; [|lia].
    assert (M : In x ((i, kv) :: L)) by (apply HI; split; [exact H1 | lia]).
    destruct M as [M|M]; [subst x; cbn [fst] in H2; lia | exact M].
Qed.

Lemma occurrences_remove st k i x :
  find_sub k line = Some i -> i < fst x ->
  (In x (occurrences (store_remove k st) line) <-> In x (occurrences st line)).
Proof.
  intros F Hlt. destruct x as [j [k' v']]. cbn [fst] in Hlt.
  rewrite !In_occurrences, In_store_remove. split.
  - intros [[H1 _] H2]. now split.
  - intros [H1 H2]. split; [split; [exact H1|] | exact H2].
    intros ->. rewrite F in H2. inversion H2. lia.
Qed.

(* when the current offset is covered (or the head is at i and is skipped), move to i+1 *)
Lemma Inv_covered st i L last out removed :
  Inv st i L -> i < last ->
  exists L', Inv st (S i) L' /\
             inject_loop le line L last out removed = inject_loop le line L' last out removed.
Proof.
  intros HInv Hlt. destruct L as [|[j [k v]] L'].
  - exists []. split; [|reflexivity]. destruct HInv as [HS HI]. split; [exact HS|].
    intros x. split; [intros []|]. intros [H1 H2]. apply (HI x). split; [exact H1 | lia].
  - destruct (Nat.eq_dec j i) as [->|Hne].
    + exists L'. split.
      * apply (Inv_tail st st i (k, v) L' HInv). intros x _. reflexivity.
      * now apply inject_loop_cons_skip.
    + exists ((j, (k, v)) :: L'). split; [|reflexivity].
      destruct HInv as [HS HI]. split; [exact HS|]. intros x. rewrite HI. split.
      * intros [H1 H2]. split; [exact H1|].
        assert (Hj : i <= j). { apply (HI (j, (k, v))). now left. }
        assert (M : In x ((j, (k, v)) :: L')) by (apply HI; now split).
        destruct M as [M|M]; [subst x; cbn [fst]; lia|].
        inversion HS as [|? ? Hx _]; subst. specialize (Hx _ M). cbn [fst] in Hx. lia.
      * intros [H1 H2]. split; [exact H1 | lia].
Qed.

(* ---------------------------------------------------------------- the simulation *)
(* last  = end of the last substitution (inject_loop's last_end), skip = last - i;
   the bytes [last, i) have been copied by the scanner but not yet by the loop *)
Lemma scan_simulates : forall rest i last st L out removed out_f le_f rem_f st0,
  skipn i line = rest -> last <= length line -> i <= length line ->
  Inv st i L ->
  st = fold_left rm removed st0 ->
  inject_loop le line L last out removed = Some (out_f, le_f, rem_f) ->
  exists o,
    scan le line st i (last - i) rest = (o, fold_left rm rem_f st0) /\
    out_f ++ skipn le_f line = out ++ firstn (i - last) (skipn last line) ++ o.
Proof.
  induction rest as [|c r IH]; intros i last st L out removed out_f le_f rem_f st0 Hrest Hlast Hi HInv Hst Hloop.
  - (* end of the line *)
    assert (Ei : i = length line) by (apply skipn_nil_ge in Hrest; lia). subst i.
    replace (last - length line) with 0 by lia.
    cbn [scan].
    assert (Hfull : firstn (length line - last) (skipn last line) = skipn last line).
    { apply firstn_all2. rewrite skipn_length. lia. }
    destruct (find (first_at line (length line)) st) as [[k v]|] eqn:Ef.
    + apply find_some in Ef as [Hin Ff]. apply first_at_true in Ff.
      destruct (Inv_found _ _ _ _ _ HInv Hin Ff) as [L' ->].
      pose proof (occ_bound _ _ _ Ff) as Hb.
      assert (Ek : length k = 0) by lia.
      rewrite inject_loop_cons_take in Hloop by lia.
      assert (EL : L' = []).
      { destruct L' as [|[j [k' v']] L'']; [reflexivity|]. exfalso.
        destruct HInv as [HS HI]. pose proof (ssorted_head _ _ HS) as Hx.
        assert (Hj : length line < j) by (apply (Hx (j, (k', v'))); now left).
        assert (M : In (j, (k', v')) (occurrences st line)).
        { apply (HI (j, (k', v'))). right. now left. }
        apply In_occurrences in M as [_ F']. apply occ_bound in F'. lia. }
      subst L'. cbn [inject_loop] in Hloop. inversion Hloop; subst out_f le_f rem_f.
      rewrite fold_left_app. cbn [fold_left]. rewrite <- Hst.
      eexists. split; [reflexivity|].
      rewrite Ek, Nat.add_0_r, skipn_all, app_nil_r. reflexivity.
    + assert (EL : L = []).
      { destruct L as [|[j [k' v']] L'']; [reflexivity|]. exfalso.
        pose proof (Inv_none _ _ _ HInv Ef) as [_ HI'].
        assert (M : In (j, (k', v')) (occurrences st line) /\ S (length line) <= j).
        { apply (HI' (j, (k', v'))). now left. }
        destruct M as [M Hj]. apply In_occurrences in M as [_ F']. apply occ_bound in F'. lia. }
      subst L. cbn [inject_loop] in Hloop. inversion Hloop; subst out_f le_f rem_f.
      rewrite <- Hst. eexists. split; [reflexivity|]. now rewrite Hfull, app_nil_r.
  - (* a byte c at offset i *)
    pose proof (skipn_cons_lt _ _ _ _ Hrest) as Hilt.
    pose proof (skipn_cons_nth _ _ _ _ Hrest) as Hrest'.
    destruct (last - i) as [|n] eqn:Esk.
    + (* nothing pending: look for a tag at i *)
      assert (Hle : last <= i) by lia.
      cbn [scan].
      destruct (find (first_at line i) st) as [[k v]|] eqn:Ef.
      * apply find_some in Ef as [Hin Ff]. apply first_at_true in Ff.
        destruct (Inv_found _ _ _ _ _ HInv Hin Ff) as [L' ->].
        rewrite inject_loop_cons_take in Hloop by lia.
        assert (HInv' : Inv (store_remove k st) (S i) L').
        { apply (Inv_tail st _ i (k, v) L' HInv). intros x Hx. now apply (occurrences_remove st k i). }
        assert (Hst' : store_remove k st = fold_left rm (removed ++ [k]) st0).
        { rewrite fold_left_app. cbn [fold_left]. now rewrite Hst. }
        pose proof (occ_bound _ _ _ Ff) as Hb.
        destruct (IH (S i) (i + length k) _ _ _ _ _ _ _ st0 Hrest' Hb Hilt HInv' Hst' Hloop)
          as (o & Hscan & Hout).
        destruct k as [|k0 k'].
        -- (* the empty tag name: consumes nothing, the byte at i is copied *)
           cbn [length] in Hscan, Hout. rewrite Nat.add_0_r in Hscan, Hout.
           replace (i - S i) with 0 in Hscan by lia. rewrite Hscan.
           eexists. split; [reflexivity|]. rewrite Hout.
           replace (S i - i) with 1 by lia. rewrite Hrest. cbn [firstn].
           rewrite <- !app_assoc. reflexivity.
        -- cbn [length] in Hscan, Hout.
           replace (i + S (length k') - S i) with (length k') in Hscan by lia. rewrite Hscan.
           eexists. split; [reflexivity|]. rewrite Hout.
           replace (S i - (i + S (length k'))) with 0 by lia. cbn [firstn app].
           rewrite <- !app_assoc. reflexivity.
      * pose proof (Inv_none _ _ _ HInv Ef) as HInv'.
        destruct (IH (S i) last _ _ _ _ _ _ _ st0 Hrest' Hlast Hilt HInv' Hst Hloop) as (o & Hscan & Hout).
        replace (last - S i) with 0 in Hscan by lia. rewrite Hscan.
        eexists. split; [reflexivity|]. rewrite Hout.
        rewrite (pending_snoc line last i c r Hle Hrest), <- !app_assoc. reflexivity.
    + (* offset i is covered by the last substituted tag name *)
      assert (Hlt : i < last) by lia.
      destruct (Inv_covered st i L last out removed HInv Hlt) as (L' & HInv' & EL).
      rewrite EL in Hloop.
      destruct (IH (S i) last _ _ _ _ _ _ _ st0 Hrest' Hlast Hilt HInv' Hst Hloop) as (o & Hscan & Hout).
      replace (last - S i) with n in Hscan by lia.
      cbn [scan]. exists o. split; [exact Hscan|]. rewrite Hout.
      replace (i - last) with 0 by lia. replace (S i - last) with 0 by lia. reflexivity.
Qed.

(* ---- Theorem D: for a prefix-free store, `inject` IS the left-to-right scanner: same output, same remaining store *)
Theorem inject_is_scan t o t' :
  prefix_free (stored t) -> inject t line le = Some (o, t') ->
  scan_line le line (stored t) = (o, stored t') /\ listening t' = listening t.
Proof.
  intros Hpf H. unfold inject, stable_sort_occ in H. cbv zeta in H.
  destruct (ends_with_lf line); [discriminate|].
  destruct (inject_loop le line (sort_occ (occurrences (stored t) line)) 0 [] [])
    as [[[out_f le_f] rem_f]|] eqn:Hloop; [|discriminate].
  destruct (Nat.leb le_f (length line)) eqn:Hb; [|discriminate].
  inversion H; subst o t'. clear H. cbn [stored listening]. split; [|reflexivity].
  assert (HInv : Inv (stored t) 0 (sort_occ (occurrences (stored t) line))).
  { split.
    - apply ssorted_sort_occ. now apply occurrences_nodup.
    - intros x. rewrite In_sort_occ. split; [intros Hx; split; [exact Hx | lia] | tauto]. }
  destruct (scan_simulates line 0 0 (stored t) _ [] [] out_f le_f rem_f (stored t)
              eq_refl (Nat.le_0_l _) (Nat.le_0_l _) HInv eq_refl Hloop) as (o & Hscan & Hout).
  unfold scan_line. cbn [Nat.sub] in Hscan. rewrite Hscan. f_equal.
  rewrite Hout. reflexivity.
Qed.

(* in the form asked for: output equal, stores equal up to permutation (in fact equal) *)
Corollary inject_scan_perm t o t' :
  prefix_free (stored t) -> ends_with_lf line = false -> inject t line le = Some (o, t') ->
  exists st', scan_line le line (stored t) = (o, st') /\ Permutation st' (stored t').
Proof.
  intros Hpf _ H. destruct (inject_is_scan t o t' Hpf H) as [E _].
  exists (stored t'). split; [exact E | apply Permutation_refl].
Qed.

(* and as a total characterisation of inject on the lines it is given (no final LF) *)
Corollary inject_eq_scan t :
  prefix_free (stored t) -> ends_with_lf line = false ->
  inject t line le = Some (fst (scan_line le line (stored t)),
                           mkTags (listening t) (snd (scan_line le line (stored t)))).
Proof.
  intros Hpf Hlf. destruct (inject t line le) as [[o t']|] eqn:E.
  - destruct (inject_is_scan t o t' Hpf E) as [Es El]. rewrite Es. cbn [fst snd].
    destruct t' as [lst' st']. cbn [listening stored] in *. now subst lst'.
  - exfalso. now apply (inject_no_panic t line le Hlf).
Qed.

End Scan.
