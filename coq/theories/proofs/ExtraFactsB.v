(* ExtraFactsB.v — GOAL B (C01): the build of a file fails exactly for the prescribed errors.
   `prescribed_error` lists the documented causes, one constructor each; an item fails (outside clean mode) iff one of
   them applies; a file fails iff some item has a prescribed error after the items before it ran fine, or a write to
   the output fails, or the epilogue fails (a tag is left unused / the final write / `done`). *)
Require Import Txtpp.Str Txtpp.Consts Txtpp.Grammar Txtpp.Tags Txtpp.Path Txtpp.Fs Txtpp.Sink Txtpp.Pp Txtpp.Spec.
Require Import Txtpp.proofs.StrFacts Txtpp.proofs.GrammarFacts Txtpp.proofs.TagsFacts Txtpp.proofs.SinkFacts.
Require Import Txtpp.proofs.PpFacts.
From Coq Require Import Lia.

(* ---------------------------------------------------------------- file system helpers *)
Lemma os_walk_exists f comps : forall cur q, os_walk f cur comps = Some q -> exists_ f q = true.
Proof.
  induction comps as [|c r IH]; intros cur q; cbn [os_walk].
  - destruct (exists_ f cur) eqn:E; [|discriminate]. intros H. now inversion H; subst.
  - destruct (negb (is_dir f cur)); [discriminate|].
    destruct (str_eqb c dotdot); apply IH.
Qed.

Lemma os_walk_mono f g comps :
  (forall p, is_dir f p = is_dir g p) -> (forall p, exists_ f p = true -> exists_ g p = true) ->
  forall cur q, os_walk f cur comps = Some q -> os_walk g cur comps = Some q.
Proof.
  intros Hd He. induction comps as [|c r IH]; intros cur q; cbn [os_walk].
  - destruct (exists_ f cur) eqn:E; [|discriminate]. now rewrite (He _ E).
  - rewrite <- (Hd cur). destruct (negb (is_dir f cur)); [discriminate|].
    destruct (str_eqb c dotdot); apply IH.
Qed.

(* a file that has just been created can be written *)
Lemma create_then_write w lp w1 c : w_write w lp [] = Some w1 -> w_write w1 lp c <> None.
Proof.
  unfold w_write. destruct (write_target (w_fs w) lp) as [q|] eqn:T; [|discriminate].
  intros H. inversion H; subst w1. clear H. cbn [w_fs].
  assert (T1 : write_target (fs_put (w_fs w) q (File [])) lp = Some q).
  { unfold write_target in *. destruct (rev lp) as [|n rp]; [discriminate|].
    destruct (is_normal n); [|discriminate].
    destruct (os_resolve (w_fs w) (rev rp)) as [d|] eqn:R; [|discriminate].
    destruct (is_dir (w_fs w) d) eqn:Dd; [|discriminate].
    destruct (is_dir (w_fs w) (d ++ [n])) eqn:Dq; [discriminate|].
    inversion T; subst q. clear T.
    assert (Hq : d ++ [n] <> []) by (destruct d; discriminate).
    assert (HD : forall p, is_dir (w_fs w) p = is_dir (fs_put (w_fs w) (d ++ [n]) (File [])) p).
    { intros p. unfold is_dir.
      destruct (list_eq_dec (list_eq_dec N.eq_dec) (d ++ [n]) p) as [<-|Hne].
      - rewrite fs_get_put_same by exact Hq. unfold is_dir in Dq.
        destruct (fs_get (w_fs w) (d ++ [n])) as [[c0|]|]; try reflexivity. discriminate.
      - now rewrite fs_get_put_other by exact Hne. }
    assert (HE : forall p, exists_ (w_fs w) p = true -> exists_ (fs_put (w_fs w) (d ++ [n]) (File [])) p = true).
    { intros p. unfold exists_.
      destruct (list_eq_dec (list_eq_dec N.eq_dec) (d ++ [n]) p) as [<-|Hne].
      - now rewrite fs_get_put_same by exact Hq.
      - now rewrite fs_get_put_other by exact Hne. }
    unfold os_resolve in *. rewrite (os_walk_mono _ _ _ HD HE _ _ R).
    rewrite <- (HD d), Dd, <- (HD (d ++ [n])), Dq. reflexivity. }
  rewrite T1. discriminate.
Qed.

(* `temp` cannot write its file exactly when the path is an existing directory, or does not exist and cannot be
   created (the parent is missing or not a directory, or the path has no ordinary file name) *)
Inductive temp_unwritable (f : fs) (lp : lexpath) : Prop :=
| TU_directory q : os_resolve f lp = Some q -> is_dir f q = true -> temp_unwritable f lp
| TU_cannot_create : os_resolve f lp = None -> write_target f lp = None -> temp_unwritable f lp.

Theorem write_temp_err_iff w lp c k :
  write_temp w lp c = inr k <-> k = KWrite /\ temp_unwritable (w_fs w) lp.
Proof.
  split.
  - intros H. unfold write_temp in H.
    destruct (os_resolve (w_fs w) lp) as [q|] eqn:R.
    + destruct (fs_get (w_fs w) q) as [[c0|]|] eqn:G.
      * exfalso. destruct (temp_existing_file_succeeds w lp q c0 c R G) as [a Ha].
        unfold write_temp in Ha. rewrite R, G in Ha. congruence.
      * inversion H; subst k. split; [reflexivity|]. apply (TU_directory _ _ q R). unfold is_dir. now rewrite G.
      * exfalso. apply os_walk_exists in R. unfold exists_ in R. rewrite G in R. discriminate.
    + destruct (w_write w lp []) as [w1|] eqn:W.
      * exfalso. destruct c as [|b c]; [discriminate|].
        pose proof (create_then_write w lp w1 (b :: c) W) as Hn.
        destruct (w_write w1 lp (b :: c)); [discriminate | congruence].
      * inversion H; subst k. split; [reflexivity|]. apply TU_cannot_create; [exact R|].
        unfold w_write in W. destruct (write_target (w_fs w) lp); [discriminate | reflexivity].
  - intros [-> [q R D | R T]]; unfold write_temp; rewrite R.
    + unfold is_dir in D. destruct (fs_get (w_fs w) q) as [[c0|]|]; try discriminate. reflexivity.
    + unfold w_write. rewrite T. reflexivity.
Qed.

(* a dependency that get_txtpp_file finds always resolves: the "cannot resolve the dependency" error of
   execute_in_collect_deps_mode (pp/mod.rs:300-306) is dead in this model (no symlinks, atomic tasks) *)
Lemma get_txtpp_file_resolves f p x : get_txtpp_file f p = Some x -> exists q, os_resolve f x = Some q.
Proof.
  unfold get_txtpp_file. intros H. apply find_some in H as [_ H]. unfold lex_is_file in H.
  destruct (os_resolve f x) as [q|]; [now exists q | discriminate].
Qed.

Section B.
Variable orc : oracle.
Variable md : mode.
Variable src base : path.
Variable le : str.

Notation wd := (work_dir src).
Notation disp := (input_display src base).

Definition dir_arg (d : directive) : str := hd [] (d_args d).

(* the directive names a txtpp dependency (include / after of a path for which a .txtpp source exists) *)
Definition is_dep (d : directive) (s : pst) : bool :=
  match d_ty d with
  | DInclude | DAfter =>
    match get_txtpp_file (w_fs (wld s)) (lex_join wd (dir_arg d)) with Some _ => true | None => false end
  | _ => false
  end.

(* the directive is executed in this pass: always in the second/only pass; in a first pass until the first
   dependency is met (that directive records it and switches to collecting); never while collecting *)
Definition executes (d : directive) (s : pst) : bool :=
  match pmode s with
  | PExec => true
  | PFirst => negb (is_dep d s)
  | PCollect _ => false
  end.

Lemma collect_deps_cases d s :
  if executes d s then collect_deps src d s = inl (inr s)
  else exists s', collect_deps src d s = inl (inl s').
Proof.
  unfold executes, is_dep, collect_deps, dir_arg.
  destruct (pmode s) as [| |deps] eqn:P; cbn [negb].
  - reflexivity.
  - destruct (d_ty d); try reflexivity;
      (destruct (get_txtpp_file (w_fs (wld s)) (lex_join wd (hd [] (d_args d)))) as [x|] eqn:G; cbn [negb];
       [destruct (get_txtpp_file_resolves _ _ _ G) as [q ->]; eexists; reflexivity | reflexivity]).
  - destruct (d_ty d); try (eexists; reflexivity);
      (destruct (get_txtpp_file (w_fs (wld s)) (lex_join wd (hd [] (d_args d)))) as [x|] eqn:G;
       [destruct (get_txtpp_file_resolves _ _ _ G) as [q ->]; eexists; reflexivity | eexists; reflexivity]).
Qed.

(* ---------------------------------------------------------------- the prescribed errors *)
(* prescribed_error it s k w: item `it`, met in state s, is an error of kind k, leaving the world w *)
Inductive prescribed_error : item -> pst -> errkind -> world -> Prop :=
(* a multi-line directive (run, temp, write, empty) without a prefix *)
| PE_no_prefix s :
    prescribed_error IBad s KDirective (wld s)
(* run: the command cannot be spawned or exits with a non-zero status (the run is logged) *)
| PE_run_fails d fol s :
    d_ty d = DRun -> executes d s = true ->
    orc (join [SPb] (d_args d)) wd disp = None ->
    prescribed_error (IDir d fol) s KDirective (w_emit (wld s) (ERun (join [SPb] (d_args d)) wd disp))
(* include: the path does not resolve *)
| PE_include_missing d fol s :
    d_ty d = DInclude -> executes d s = true ->
    os_resolve (w_fs (wld s)) (lex_join wd (dir_arg d)) = None ->
    prescribed_error (IDir d fol) s KDirective (wld s)
(* include: the path is a directory / cannot be read *)
| PE_include_unreadable d fol s q :
    d_ty d = DInclude -> executes d s = true ->
    os_resolve (w_fs (wld s)) (lex_join wd (dir_arg d)) = Some q -> read_file (w_fs (wld s)) q = None ->
    prescribed_error (IDir d fol) s KDirective (wld s)
(* include: the file is not UTF-8 *)
| PE_include_not_utf8 d fol s q c :
    d_ty d = DInclude -> executes d s = true ->
    os_resolve (w_fs (wld s)) (lex_join wd (dir_arg d)) = Some q -> read_file (w_fs (wld s)) q = Some c ->
    utf8_valid c = false ->
    prescribed_error (IDir d fol) s KDirective (wld s)
(* tag: another tag is still listening *)
| PE_tag_while_listening d fol s :
    d_ty d = DTag -> executes d s = true -> listening (tg s) <> None ->
    prescribed_error (IDir d fol) s KDirective (wld s)
(* tag: the name is equal to, a prefix of, or prefixed by a stored tag name *)
| PE_tag_clash d fol s k v :
    d_ty d = DTag -> executes d s = true -> In (k, v) (stored (tg s)) ->
    (exists r, dir_arg d = k ++ r) \/ (exists r, k = dir_arg d ++ r) ->
    prescribed_error (IDir d fol) s KDirective (wld s)
(* temp: no path (cannot happen for a parsed directive: GrammarFacts.detect_from_one_arg) *)
| PE_temp_no_path d fol s :
    d_ty d = DTemp -> executes d s = true -> d_args d = [] ->
    prescribed_error (IDir d fol) s KDirective (wld s)
(* temp: the target is itself a txtpp file *)
| PE_temp_txtpp d fol s export rest :
    d_ty d = DTemp -> executes d s = true -> d_args d = export :: rest ->
    is_txtpp_file (lex_components export) = true ->
    prescribed_error (IDir d fol) s KDirective (wld s)
(* temp: the file cannot be written *)
| PE_temp_unwritable d fol s export rest :
    d_ty d = DTemp -> executes d s = true -> d_args d = export :: rest ->
    is_txtpp_file (lex_components export) = false ->
    temp_unwritable (w_fs (wld s)) (lex_join wd export) ->
    prescribed_error (IDir d fol) s KWrite (wld s).

(* exec_directive outside clean mode, by cases on `executes` *)
Lemma exec_directive_not_executed d s :
  md <> Clean -> executes d s = false -> exists s', exec_directive orc md src base le d s = XOut None s'.
Proof.
  intros Hm He. pose proof (collect_deps_cases d s) as C. rewrite He in C. destruct C as [s' C].
  exists s'. unfold exec_directive. rewrite C. destruct md; try reflexivity. congruence.
Qed.

Lemma exec_directive_executed d s :
  md <> Clean -> executes d s = true ->
  exec_directive orc md src base le d s =
  match d_ty d with
  | DEmpty | DAfter => XOut None s
  | DRun =>
    let command := join [SPb] (d_args d) in
    let w1 := w_emit (wld s) (ERun command wd disp) in
    match orc command wd disp with
    | Some out => XOut (Some out) (set_wld s w1)
    | None => XErr KDirective w1
    end
  | DInclude =>
    match os_resolve (w_fs (wld s)) (lex_join wd (dir_arg d)) with
    | None => XErr KDirective (wld s)
    | Some q =>
      match read_file (w_fs (wld s)) q with
      | Some c => if utf8_valid c then XOut (Some c) s else XErr KDirective (wld s)
      | None => XErr KDirective (wld s)
      end
    end
  | DTemp =>
    match exec_temp src le (d_args d) false (wld s) with
    | inl w' => XOut None (set_wld s w')
    | inr k => XErr k (wld s)
    end
  | DTag =>
    match create (tg s) (dir_arg d) with
    | Some t' => XOut None (set_tg s t')
    | None => XErr KDirective (wld s)
    end
  | DWrite => XOut (Some (join [LFb] (d_args d))) s
  end.
Proof.
  intros Hm He. pose proof (collect_deps_cases d s) as C. rewrite He in C.
  unfold exec_directive. rewrite C. destruct md; try reflexivity. congruence.
Qed.

Lemma exec_temp_err_iff args w k :
  exec_temp src le args false w = inr k <->
  (args = [] /\ k = KDirective) \/
  exists export rest, args = export :: rest /\
    ((is_txtpp_file (lex_components export) = true /\ k = KDirective) \/
     (is_txtpp_file (lex_components export) = false /\ k = KWrite /\
      temp_unwritable (w_fs w) (lex_join wd export))).
Proof.
  unfold exec_temp. destruct args as [|export rest].
  - split.
    + intros H. inversion H. now left.
    + intros [[_ ->]|(e & r & H & _)]; [reflexivity | discriminate].
  - destruct (is_txtpp_file (lex_components export)) eqn:T.
    + split.
      * intros H. inversion H. right. exists export, rest. split; [reflexivity|]. now left.
      * intros [[H _]|(e & r & H & [[_ ->]|(T' & _)])]; [discriminate | reflexivity |].
        inversion H; subst. congruence.
    + rewrite write_temp_err_iff. split.
      * intros [-> U]. right. exists export, rest. split; [reflexivity|]. right. auto.
      * intros [[H _]|(e & r & H & [[T' _]|(_ & -> & U)])]; [discriminate | |].
        -- inversion H; subst. congruence.
        -- inversion H; subst. auto.
Qed.

(* ---- Theorem B1: an item is an error (outside clean mode) iff it has a prescribed error; kind and world determined *)
Theorem item_error_iff it s k w :
  md <> Clean ->
  (item_output orc md src base le it s = IErr k w <-> prescribed_error it s k w).
Proof.
  intros Hm. split.
  - destruct it as [l|d fol| |]; cbn [item_output].
    + destruct (is_execute (pmode s)); [|discriminate].
      destruct (inject (tg s) l le) as [[l' t']|]; discriminate.
    + destruct (executes d s) eqn:He.
      * rewrite (exec_directive_executed d s Hm He).
        destruct (d_ty d) eqn:Ty.
        -- discriminate.
        -- destruct (os_resolve (w_fs (wld s)) (lex_join wd (dir_arg d))) as [q|] eqn:R.
           ++ destruct (read_file (w_fs (wld s)) q) as [c|] eqn:Rd.
              ** destruct (utf8_valid c) eqn:U.
                 --- destruct (try_store (tg s) c); discriminate.
                 --- intros H. inversion H; subst. eapply PE_include_not_utf8; eauto.
              ** intros H. inversion H; subst. eapply PE_include_unreadable; eauto.
           ++ intros H. inversion H; subst. now apply PE_include_missing.
        -- discriminate.
        -- cbv zeta. destruct (orc (join [SPb] (d_args d)) wd disp) as [out|] eqn:O.
           ++ destruct (try_store _ out); discriminate.
           ++ intros H. inversion H; subst. now apply PE_run_fails.
        -- destruct (create (tg s) (dir_arg d)) as [t'|] eqn:C; [discriminate|].
           intros H. inversion H; subst. apply create_errors_iff in C as [C|(k0 & v0 & Hin & Hrel)].
           ++ now apply PE_tag_while_listening.
           ++ now apply (PE_tag_clash d fol s k0 v0).
        -- destruct (exec_temp src le (d_args d) false (wld s)) as [w'|k'] eqn:T; [discriminate|].
           intros H. inversion H; subst.
           apply exec_temp_err_iff in T as [[Ha ->]|(e & r & Ha & [[Ht ->]|(Ht & -> & U)])].
           ++ now apply PE_temp_no_path.
           ++ now apply (PE_temp_txtpp d fol s e r).
           ++ now apply (PE_temp_unwritable d fol s e r).
        -- destruct (try_store (tg s) _); discriminate.
      * destruct (exec_directive_not_executed d s Hm He) as [s' ->]. discriminate.
    + intros H. inversion H; subst. constructor.
    + discriminate.
  - intros H. destruct H; cbn [item_output]; try reflexivity;
      rewrite (exec_directive_executed _ _ Hm H0), H; cbv zeta.
    + now rewrite H1.
    + now rewrite H1.
    + now rewrite H1, H2.
    + now rewrite H1, H2, H3.
    + assert (C : create (tg s) (dir_arg d) = None) by (apply create_errors_iff; now left). now rewrite C.
    + assert (C : create (tg s) (dir_arg d) = None) by (apply create_errors_iff; right; eauto). now rewrite C.
    + assert (T : exec_temp src le (d_args d) false (wld s) = inr KDirective).
      { apply exec_temp_err_iff. now left. }
      now rewrite T.
    + assert (T : exec_temp src le (d_args d) false (wld s) = inr KDirective).
      { apply exec_temp_err_iff. right. exists export, rest. split; [assumption|]. now left. }
      now rewrite T.
    + assert (T : exec_temp src le (d_args d) false (wld s) = inr KWrite).
      { apply exec_temp_err_iff. right. exists export, rest. split; [assumption|]. right. auto. }
      now rewrite T.
Qed.

(* no prescribed error in a collecting first pass: once a dependency has been seen nothing is executed any more *)
Corollary collecting_never_errs d fol s deps k w :
  md <> Clean -> pmode s = PCollect deps -> item_output orc md src base le (IDir d fol) s <> IErr k w.
Proof.
  intros Hm P H. apply (item_error_iff _ _ _ _ Hm) in H.
  inversion H; subst; unfold executes in *; rewrite P in *; discriminate.
Qed.

(* ---------------------------------------------------------------- the file level *)
(* a write to the output fails: the pending line ending or the chunk itself *)
Definition write_error (it : item) (s : pst) (k : errkind) (w : world) : Prop :=
  exists o s1, item_output orc md src base le it s = IOut o s1 /\ emit le s1 o (item_tail it) = StErr k w.

Lemma emit_err_iff s o t k w :
  emit le s o t = StErr k w <->
  is_execute (pmode s) = true /\ exists x, o = Some x /\
    ((flag s = true /\ sink_write (snk s) (wld s) le = inr k /\ w = wld s) \/
     exists k1 w1, (if flag s then sink_write (snk s) (wld s) le else inl (snk s, wld s)) = inl (k1, w1) /\
                   sink_write k1 w1 x = inr k /\ w = w1).
Proof.
  unfold emit. destruct (is_execute (pmode s)).
  2:{ split; [discriminate | intros [H _]; discriminate]. }
  destruct o as [x|].
  2:{ split; [discriminate | intros [_ (x & H & _)]; discriminate]. }
  destruct (flag s) eqn:F.
  - destruct (sink_write (snk s) (wld s) le) as [[k1 w1]|k0] eqn:W1.
    + destruct (sink_write k1 w1 x) as [[k2 w2]|k0] eqn:W2.
      * split; [discriminate|]. intros [_ (x' & Hx & [(_ & H & _)|(k1' & w1' & H1 & H2 & _)])].
        -- discriminate.
        -- inversion Hx; subst x'. inversion H1; subst. congruence.
      * split.
        -- intros H. inversion H; subst. split; [reflexivity|]. exists x. split; [reflexivity|].
           right. do 2 eexists. split; [reflexivity|]. split; [exact W2 | reflexivity].
        -- intros [_ (x' & Hx & [(_ & H & _)|(k1' & w1' & H1 & H2 & ->)])]; [discriminate|].
           inversion Hx; subst x'. inversion H1; subst. rewrite W2 in H2. now inversion H2.
    + split.
      * intros H. inversion H; subst. split; [reflexivity|]. exists x. split; [reflexivity|]. left. auto.
      * intros [_ (x' & Hx & [(_ & H & ->)|(k1' & w1' & H1 & _)])]; [|discriminate].
        now inversion H.
  - destruct (sink_write (snk s) (wld s) x) as [[k2 w2]|k0] eqn:W2.
    + split; [discriminate|]. intros [_ (x' & Hx & [(H & _)|(k1' & w1' & H1 & H2 & _)])]; [discriminate|].
      inversion Hx; subst x'. inversion H1; subst. congruence.
    + split.
      * intros H. inversion H; subst. split; [reflexivity|]. exists x. split; [reflexivity|].
        right. do 2 eexists. split; [reflexivity|]. split; [exact W2 | reflexivity].
      * intros [_ (x' & Hx & [(H & _)|(k1' & w1' & H1 & H2 & ->)])]; [discriminate|].
        inversion Hx; subst x'. inversion H1; subst. rewrite W2 in H2. now inversion H2.
Qed.

Notation run_its := (run_items orc md src base le).

Lemma run_items_fst_cons it r s :
  fst (run_its (it :: r) s) =
  match item_output orc md src base le it s with
  | IPanic => StPanic
  | IErr k w => StErr k w
  | IOut o s1 => match emit le s1 o (item_tail it) with
                 | StOk s2 => fst (run_its r s2)
                 | e => e
                 end
  end.
Proof.
  cbn [run_items]. destruct (item_output orc md src base le it s) as [o s1|k w|]; try reflexivity.
  destruct (emit le s1 o (item_tail it)) as [s2|k w|]; try reflexivity.
  destruct (run_its r s2) as [res cs]. reflexivity.
Qed.

(* the items fail iff some item fails (itself, or the write of its chunk) after the items before it ran fine *)
Lemma run_items_err_iff its : forall s k w,
  fst (run_its its s) = StErr k w <->
  exists pre it post s', its = pre ++ it :: post /\ fst (run_its pre s) = StOk s' /\
    (item_output orc md src base le it s' = IErr k w \/ write_error it s' k w).
Proof.
  induction its as [|it r IH]; intros s k w.
  - cbn [run_items fst]. split; [discriminate|].
    intros (pre & it & post & s' & H & _). destruct pre; discriminate.
  - rewrite run_items_fst_cons. split.
    + destruct (item_output orc md src base le it s) as [o s1|k0 w0|] eqn:I.
      * destruct (emit le s1 o (item_tail it)) as [s2|k0 w0|] eqn:E.
        -- intros H. apply IH in H as (pre & it' & post & s' & -> & Hpre & Herr).
           exists (it :: pre), it', post, s'. split; [reflexivity|]. split; [|exact Herr].
           now rewrite run_items_fst_cons, I, E.
        -- intros H. inversion H; subst. exists [], it, r, s. split; [reflexivity|]. split; [reflexivity|].
           right. exists o, s1. auto.
        -- discriminate.
      * intros H. inversion H; subst. exists [], it, r, s. split; [reflexivity|]. split; [reflexivity|]. now left.
      * discriminate.
    + intros (pre & it' & post & s' & Heq & Hpre & Herr). destruct pre as [|x pre].
      * cbn [app] in Heq. inversion Heq; subst it' post. cbn [run_items fst] in Hpre. inversion Hpre; subst s'.
        destruct Herr as [Herr|(o & s1 & Ho & He)]; [now rewrite Herr | now rewrite Ho, He].
      * cbn [app] in Heq. inversion Heq; subst x r. rewrite run_items_fst_cons in Hpre.
        destruct (item_output orc md src base le it s) as [o s1|k0 w0|]; try discriminate.
        destruct (emit le s1 o (item_tail it)) as [s2|k0 w0|]; try discriminate.
        apply IH. exists pre, it', post, s'. auto.
Qed.

(* the epilogue fails: a tag is left unused (still listening, or stored and never substituted), the final line
   ending cannot be written, or `done` fails (in-memory: the output cannot be written; verify: output too short) *)
Inductive epilogue_error (tn : bool) (s1 : pst) : errkind -> world -> Prop :=
| EE_unused_tag :
    (forall deps, pmode s1 <> PCollect deps) -> has_tags (tg s1) = true ->
    epilogue_error tn s1 KDirective (wld s1)
| EE_final_newline k :
    (forall deps, pmode s1 <> PCollect deps) -> has_tags (tg s1) = false ->
    flag s1 = true -> tn = true -> sink_write (snk s1) (wld s1) le = inr k ->
    epilogue_error tn s1 k (wld s1)
| EE_done k k1 w1 :
    (forall deps, pmode s1 <> PCollect deps) -> has_tags (tg s1) = false ->
    (if flag s1 && tn then sink_write (snk s1) (wld s1) le else inl (snk s1, wld s1)) = inl (k1, w1) ->
    sink_done k1 w1 = inr k ->
    epilogue_error tn s1 k w1.

Lemma epilogue_err_iff tn s1 k w :
  md <> Clean -> (epilogue md le tn s1 = PpErr k w <-> epilogue_error tn s1 k w).
Proof.
  intros Hm. assert (C : negb (mode_eqb md Clean) = true) by (destruct md; try reflexivity; congruence).
  unfold epilogue. rewrite C, andb_true_r. split.
  - destruct (pmode s1) as [| |deps] eqn:P; [| |discriminate];
      (assert (NC : forall deps, pmode s1 <> PCollect deps) by (intros deps; rewrite P; discriminate);
       destruct (has_tags (tg s1)) eqn:T;
       [ intros H; inversion H; subst; now apply EE_unused_tag |];
       destruct (flag s1 && tn) eqn:F;
       [ destruct (sink_write (snk s1) (wld s1) le) as [[k1 w1]|k0] eqn:W;
         [ destruct (sink_done k1 w1) as [w2|k0] eqn:D; [discriminate|];
           intros H; inversion H; subst; apply (EE_done tn s1 k k1 w); auto; now rewrite F
         | apply andb_true_iff in F as [F1 F2]; intros H; inversion H; subst; now apply EE_final_newline ]
       | destruct (sink_done (snk s1) (wld s1)) as [w2|k0] eqn:D; [discriminate|];
         intros H; inversion H; subst; apply (EE_done tn s1 k (snk s1) (wld s1)); auto; now rewrite F ]).
  - intros H. destruct H as [NC T | k NC T F1 F2 W | k k1 w1 NC T W D].
    + destruct (pmode s1) as [| |deps] eqn:P; [| |exfalso; now apply (NC deps)]; now rewrite T.
    + subst tn. destruct (pmode s1) as [| |deps] eqn:P; [| |exfalso; now apply (NC deps)];
        now rewrite T, F1, W.
    + destruct (pmode s1) as [| |deps] eqn:P; [| |exfalso; now apply (NC deps)];
        now rewrite T, W, D.
Qed.

(* ---- Theorem B2: a file fails iff some item has a prescribed error after the items before it ran fine,
   or a write of a chunk fails, or all items ran fine and the epilogue fails *)
Theorem spec_file_err_iff tn ls s0 k w :
  md <> Clean ->
  (spec_file orc md src base le tn ls s0 = PpErr k w <->
   (exists pre it post s, parse false None ls = pre ++ it :: post /\ fst (run_its pre s0) = StOk s /\
                          (prescribed_error it s k w \/ write_error it s k w))
   \/ (exists s1, fst (run_its (parse false None ls) s0) = StOk s1 /\ epilogue_error tn s1 k w)).
Proof.
  intros Hm. assert (C : mode_eqb md Clean = false) by (destruct md; try reflexivity; congruence).
  unfold spec_file. rewrite C. split.
  - destruct (fst (run_its (parse false None ls) s0)) as [s1|k0 w0|] eqn:R.
    + intros H. right. exists s1. split; [reflexivity|]. now apply epilogue_err_iff.
    + intros H. inversion H; subst. left.
      apply run_items_err_iff in R as (pre & it & post & s & Hp & Hpre & Herr).
      exists pre, it, post, s. split; [exact Hp|]. split; [exact Hpre|].
      destruct Herr as [Herr|Herr]; [left; now apply item_error_iff | now right].
    + discriminate.
  - intros [(pre & it & post & s & Hp & Hpre & Herr)|(s1 & R & E)].
    + assert (R : fst (run_its (parse false None ls) s0) = StErr k w).
      { apply run_items_err_iff. exists pre, it, post, s. split; [exact Hp|]. split; [exact Hpre|].
        destruct Herr as [Herr|Herr]; [left; now apply item_error_iff | now right]. }
      now rewrite R.
    + rewrite R. now apply epilogue_err_iff.
Qed.

(* the same for the machine of Pp.v: line loop, end of input, epilogue *)
Corollary machine_err_iff tn ls s0 k w :
  md <> Clean -> cur s0 = None ->
  (outcome_of orc md src base le tn (run_lines orc md src base le ls s0) = PpErr k w <->
   (exists pre it post s, parse false None ls = pre ++ it :: post /\ fst (run_its pre s0) = StOk s /\
                          (prescribed_error it s k w \/ write_error it s k w))
   \/ (exists s1, fst (run_its (parse false None ls) s0) = StOk s1 /\ epilogue_error tn s1 k w)).
Proof.
  intros Hm Hc. rewrite (machine_refines_spec orc md src base le tn ls s0 Hc). now apply spec_file_err_iff.
Qed.

End B.

(* ---------------------------------------------------------------- examples: the hypotheses are satisfiable *)
Open Scope N_scope.
Definition exB_fs : fs := [([[100]], Dir); ([[100]; [102]], File [255])].     (* /d is a directory, /d/f is not UTF-8 *)
Definition exB_src : path := [[100]; [97;46;116;120;116;112;112]].            (* /d/a.txtpp *)
Definition exB_s0 : pst := mkP None false PExec tags_new (SMem [[100]; [97]] []) (mkW exB_fs []).
Definition exB_orc : oracle := fun _ _ _ => None.

(* "-TXTPP#run x" then "-TXTPP#include f": the run fails first *)
Example exB_run :
  let its := parse false None [[45] ++ TXTPP_HASH ++ [114;117;110;32;120]] in
  exists d, its = [IDir d false] /\
    prescribed_error exB_orc exB_src [] (IDir d false) exB_s0 KDirective
      (w_emit (wld exB_s0) (ERun [120] [[100]] (display_from_base [] exB_src))).
Proof.
  eexists. split; [vm_compute; reflexivity|]. apply PE_run_fails; vm_compute; reflexivity.
Qed.
(* "TXTPP#include f" where /d/f is not UTF-8 *)
Example exB_include :
  let its := parse false None [TXTPP_HASH ++ [105;110;99;108;117;100;101;32;102]] in
  exists d, its = [IDir d false] /\ prescribed_error exB_orc exB_src [] (IDir d false) exB_s0 KDirective (wld exB_s0)
  /\ spec_file exB_orc InMemoryBuild exB_src [] [10] true [TXTPP_HASH ++ [105;110;99;108;117;100;101;32;102]] exB_s0
     = PpErr KDirective (wld exB_s0).
Proof.
  eexists. split; [vm_compute; reflexivity|]. split; [|vm_compute; reflexivity].
  eapply PE_include_not_utf8; vm_compute; reflexivity.
Qed.
(* "TXTPP#temp d" where /d/d does not exist but "TXTPP#temp ../d" names the directory /d: unwritable *)
Example exB_temp :
  let its := parse false None [[45] ++ TXTPP_HASH ++ [116;101;109;112;32;46;46;47;100]] in
  exists d, its = [IDir d false] /\ prescribed_error exB_orc exB_src [] (IDir d false) exB_s0 KWrite (wld exB_s0).
Proof.
  eexists. split; [vm_compute; reflexivity|].
  eapply PE_temp_unwritable; try (vm_compute; reflexivity).
  eapply TU_directory; vm_compute; reflexivity.
Qed.
(* a tag that is never used: "TXTPP#tag T" followed by a line that does not contain T *)
Example exB_unused_tag :
  spec_file exB_orc InMemoryBuild exB_src [] [10] true [TXTPP_HASH ++ [116;97;103;32;84]; [120]] exB_s0
  = PpErr KDirective (wld exB_s0).
Proof. vm_compute. reflexivity. Qed.
