(* ExtraFactsC.v — GOAL C (C11): only the required sources are processed.
   Every task in the trace of a run is justified by what came BEFORE it in the trace: a file is given a pass only
   if it is an input, or was returned by an earlier completed directory scan, or was reported as a dependency by an
   earlier completed first pass; a directory is scanned only if it is an input directory or was returned by an
   earlier completed scan.  In clean mode no pass ever reports a dependency, so the third cause never applies.
   This is the converse of CoordFacts.inputs_seen / deps_seen. *)
Require Import Txtpp.Str Txtpp.Consts Txtpp.Grammar Txtpp.Tags Txtpp.Path Txtpp.Fs Txtpp.Sink Txtpp.Pp Txtpp.Spec.
Require Import Txtpp.Dep Txtpp.Coord Txtpp.Run.
Require Import Txtpp.proofs.StrFacts Txtpp.proofs.PpFacts Txtpp.proofs.DepFacts Txtpp.proofs.CoordFacts Txtpp.proofs.RunFacts.
From Coq Require Import Lia Permutation.

(* clean mode: a pass (first or final) never reports dependencies *)
Lemma pp_run_clean_no_deps orc base src first tn w deps w' :
  pp_run orc Clean base src first tn w <> PpHasDeps deps w'.
Proof.
  unfold pp_run. destruct (read_file (w_fs w) src) as [raw|]; [|discriminate].
  destruct (remove_txtpp src) as [out|]; [|discriminate].
  destruct (is_txtpp_file out); [discriminate|].
  destruct (sink_new Clean w out) as [[k0 w0]|k]; [|discriminate].
  destruct (take_valid (lines raw)) as [ls bad].
  set (s0 := mkP None false (if first then PFirst else PExec) tags_new k0 w0).
  pose proof (machine_refines_spec orc Clean src base (detect_le raw) tn ls s0 eq_refl) as HM.
  assert (HP : forall ds, pmode s0 <> PCollect ds) by (intros ds; subst s0; destruct first; discriminate).
  pose proof (clean_never_has_deps orc src base (detect_le raw) tn ls s0 deps w' eq_refl HP) as HS.
  unfold outcome_of in HM.
  destruct (run_lines orc Clean src base (detect_le raw) ls s0) as [s1|k w1|]; [|discriminate|discriminate].
  destruct bad; [discriminate|]. rewrite HM. exact HS.
Qed.

Section C.
Variable orc : oracle.
Variable cfg : config.
Variable base : path.
Variables files dirs : list path.

Notation trace := (list (task * result)).

(* why a file may be given a pass, given the results received so far *)
Definition just_file (pre : trace) (f : file) : Prop :=
  In f files
  \/ (exists d fs ds, In (TScan d, RScan (Some (fs, ds))) pre /\ In f fs)
  \/ (exists a ds, In (TPp a true, RPp a (Some (PDeps ds))) pre /\ In f ds).
(* why a directory may be scanned *)
Definition just_dir (pre : trace) (d : path) : Prop :=
  In d dirs \/ (exists d' fs ds, In (TScan d', RScan (Some (fs, ds))) pre /\ In d ds).
Definition justified_task (pre : trace) (t : task) : Prop :=
  match t with TPp f _ => just_file pre f | TScan d => just_dir pre d end.

(* every entry of the trace is justified by the entries before it *)
Definition well_justified (tr : trace) : Prop :=
  forall pre t r post, tr = pre ++ (t, r) :: post -> justified_task pre t.
(* every entry of the trace is what a worker sent back for that task *)
Definition produced (tr : trace) : Prop :=
  forall t r, In (t, r) tr -> exists w w', exec_task orc cfg base t w = Some (r, w').
Definition good_trace (tr : trace) : Prop := well_justified tr /\ produced tr.

Lemma just_file_mono pre x f : just_file pre f -> just_file (pre ++ x) f.
Proof.
  intros [H|[(d & fs & ds & H1 & H2)|(a & ds & H1 & H2)]].
  - now left.
  - right. left. exists d, fs, ds. split; [apply in_or_app; now left | exact H2].
  - right. right. exists a, ds. split; [apply in_or_app; now left | exact H2].
Qed.
Lemma just_dir_mono pre x d : just_dir pre d -> just_dir (pre ++ x) d.
Proof.
  intros [H|(d' & fs & ds & H1 & H2)].
  - now left.
  - right. exists d', fs, ds. split; [apply in_or_app; now left | exact H2].
Qed.
Lemma justified_mono pre x t : justified_task pre t -> justified_task (pre ++ x) t.
Proof. destruct t; [apply just_dir_mono | apply just_file_mono]. Qed.

Lemma good_nil : good_trace [].
Proof.
  split.
  - intros pre t r post H. destruct pre; discriminate.
  - intros t r [].
Qed.

Lemma good_snoc tr t r w w' :
  good_trace tr -> justified_task tr t -> exec_task orc cfg base t w = Some (r, w') ->
  good_trace (tr ++ [(t, r)]).
Proof.
  intros [WJ PR] HJ Hex. split.
  - intros pre t1 r1 post H.
    destruct post as [|y post'] using rev_ind.
    + apply app_inj_tail in H as [<- E]. inversion E; subst. exact HJ.
    + clear IHpost'. rewrite app_comm_cons, app_assoc in H. apply app_inj_tail in H as [H _].
      apply (WJ pre t1 r1 post' H).
  - intros t1 r1 H. apply in_app_or in H as [H|[H|[]]]; [now apply PR|].
    inversion H; subst. now exists w, w'.
Qed.

(* what a successful `handle` adds to the seen sets is justified by the result just received *)
Lemma res_files_justified tr t r x :
  answers t r -> In x (res_files r) -> just_file (tr ++ [(t, r)]) x.
Proof.
  intros Ha Hx. destruct r as [[[fs ds]|]|g [[|ds]|]]; cbn [res_files] in Hx; try destruct Hx.
  - destruct t as [d|f b]; [|destruct Ha].
    right. left. exists d, fs, ds. split; [apply in_or_app; right; now left | exact Hx].
  - destruct t as [d|f b]; [destruct Ha|]. destruct Ha as [-> Hb].
    destruct b; [|exfalso; now apply (Hb eq_refl ds)].
    right. right. exists f, ds. split; [apply in_or_app; right; now left | exact Hx].
Qed.
Lemma res_dirs_justified tr t r x :
  answers t r -> In x (res_dirs r) -> just_dir (tr ++ [(t, r)]) x.
Proof.
  intros Ha Hx. destruct r as [[[fs ds]|]|g res]; cbn [res_dirs] in Hx; try destruct Hx.
  destruct t as [d|f b]; [|destruct Ha].
  right. exists d, fs, ds. split; [apply in_or_app; right; now left | exact Hx].
Qed.

Lemma in_remove_nth {A} (x : A) : forall k l, In x (remove_nth k l) -> In x l.
Proof.
  induction k as [|k IH]; intros [|y l] H; cbn [remove_nth] in H; try destruct H.
  - now right.
  - now left.
  - right. now apply IH.
Qed.

(* the tasks still in flight after an error run to completion: each was justified when it was spawned *)
Lemma drain_good fuel : forall sched l w tr w2 tr2,
  good_trace tr -> (forall t, In t l -> justified_task tr t) ->
  drain orc cfg base fuel sched l w tr = Some (w2, tr2) -> good_trace tr2.
Proof.
  induction fuel as [|fuel IH]; intros sched l w tr w2 tr2 G HJ H; cbn [drain] in H.
  - inversion H; subst. exact G.
  - destruct (sort_tasks l) as [|t0 sl] eqn:E.
    + inversion H; subst. exact G.
    + set (k := pick sched (t0 :: sl)) in *. set (t := nth k (t0 :: sl) t0) in *.
      destruct (exec_task orc cfg base t w) as [[r w']|] eqn:Hex; [|discriminate].
      assert (Hin : forall x, In x (t0 :: sl) -> In x l).
      { intros x Hx. apply (Permutation_in x (Permutation_sym (sort_tasks_perm l))). now rewrite E. }
      assert (Ht : In t l). { apply Hin. apply nth_In. apply pick_lt. }
      apply (IH _ _ _ _ _ _ (good_snoc tr t r w w' G (HJ t Ht) Hex)) in H; [exact H|].
      intros x Hx. apply justified_mono. apply HJ. apply Hin. eapply in_remove_nth. exact Hx.
Qed.

(* the loop invariant: the state is reachable, the trace is good, everything seen is justified by the trace *)
Definition LInv (g : gstate) (tr : trace) : Prop :=
  greach files dirs g /\ good_trace tr /\
  (forall f, In f (seen (gs g)) -> just_file tr f) /\
  (forall d, In d (seen_dirs (gs g)) -> just_dir tr d).

Lemma LInv_inflight g tr t : LInv g tr -> In t (inflight (gs g)) -> justified_task tr t.
Proof.
  intros (R & _ & Hf & Hd) Hin. destruct (inv_reach _ _ _ R) as [HI _].
  pose proof (i_fl_seen HI t Hin) as Hs. destruct t as [d|f b]; cbn [tseen justified_task] in *; auto.
Qed.

Lemma run_loop_good fuel : forall sched g w tr,
  LInv g tr -> good_trace (trace_of (run_loop orc cfg base fuel sched (gs g) w tr)).
Proof.
  induction fuel as [|fuel IH]; intros sched g w tr L.
  - destruct (sort_tasks (inflight (gs g))) as [|t0 sl'] eqn:E.
    + rewrite (run_loop_exit _ _ _ _ _ _ _ _ E). apply L.
    + rewrite (run_loop_nofuel _ _ _ _ _ _ _ _ _ E). apply L.
  - destruct (sort_tasks (inflight (gs g))) as [|t0 sl'] eqn:E.
    + rewrite (run_loop_exit _ _ _ _ _ _ _ _ E). apply L.
    + rewrite (run_loop_step _ _ _ _ _ _ _ _ _ _ E). cbv zeta.
      set (sl := t0 :: sl'). set (k := pick sched sl). set (t := nth k sl t0). set (rest := remove_nth k sl).
      assert (HP : Permutation (inflight (gs g)) (t :: rest)).
      { eapply perm_trans; [apply sort_tasks_perm|]. rewrite E. apply pick_split. apply pick_lt. }
      assert (Ht : justified_task tr t).
      { apply (LInv_inflight g tr t L). apply (Permutation_in t (Permutation_sym HP)). now left. }
      assert (Hrest : forall x, In x rest -> justified_task tr x).
      { intros x Hx. apply (LInv_inflight g tr x L). apply (Permutation_in x (Permutation_sym HP)). now right. }
      destruct L as (R & G & Hf & Hd).
      destruct (exec_task orc cfg base t w) as [[r w']|] eqn:Hex; [|exact G].
      pose proof (exec_task_answers _ _ _ _ _ _ _ Hex) as Hans.
      pose proof (good_snoc tr t r w w' G Ht Hex) as G2.
      destruct (handle (with_inflight (gs g) rest) r) as [s2| |] eqn:Hh.
      * set (g2 := mkG s2 (report t r (reported g)) (history g ++ [t])).
        apply (IH (tl sched) g2 w' (tr ++ [(t, r)])).
        split; [|split; [exact G2|]].
        { eapply greach_step; [exact R|]. apply (gstep_continue g t rest r s2); assumption. }
        destruct (handle_seen _ _ _ Hh) as [Hs1 Hs2]. cbn [with_inflight seen seen_dirs] in Hs1, Hs2.
        cbn [g2 gs]. split.
        -- intros x Hx. destruct (Hs1 x Hx) as [H|H]; [apply just_file_mono; now apply Hf|].
           now apply res_files_justified.
        -- intros x Hx. destruct (Hs2 x Hx) as [H|H]; [apply just_dir_mono; now apply Hd|].
           now apply res_dirs_justified.
      * cbn [with_inflight inflight].
        destruct (drain orc cfg base (length rest) (tl sched) rest w' (tr ++ [(t, r)])) as [[w2 tr2]|] eqn:Hd2.
        -- cbn [trace_of fst snd]. eapply drain_good; [exact G2| |exact Hd2].
           intros x Hx. apply justified_mono. now apply Hrest.
        -- exact G2.
      * exact G2.
Qed.

Lemma LInv_init : LInv (ginit files dirs) [].
Proof.
  split; [apply greach_init|]. split; [apply good_nil|]. cbn [ginit gs]. split.
  - intros f Hf. rewrite seen_fold_dir_eq in Hf. apply seen_fold_file_inv in Hf as [[]|[_ Hf]]. now left.
  - intros d Hd. apply seen_dirs_fold_dir_inv in Hd as [Hd|Hd]; [|now left].
    rewrite seen_dirs_fold_file in Hd. destruct Hd.
Qed.

(* ---- Theorem C1: in the trace of a run, every task is justified by the results received before it *)
Theorem only_required_processed fuel sched w :
  well_justified (trace_of (run_loop orc cfg base fuel sched (gs (ginit files dirs)) w [])).
Proof. apply (run_loop_good fuel sched (ginit files dirs) w [] LInv_init). Qed.

(* the same, unfolded *)
Corollary processed_file_required fuel sched w pre f b r post :
  trace_of (run_loop orc cfg base fuel sched (gs (ginit files dirs)) w []) = pre ++ (TPp f b, r) :: post ->
  In f files
  \/ (exists d fs ds, In (TScan d, RScan (Some (fs, ds))) pre /\ In f fs)
  \/ (exists a ds, In (TPp a true, RPp a (Some (PDeps ds))) pre /\ In f ds).
Proof. intros H. exact (only_required_processed fuel sched w pre (TPp f b) r post H). Qed.

Corollary scanned_dir_required fuel sched w pre d r post :
  trace_of (run_loop orc cfg base fuel sched (gs (ginit files dirs)) w []) = pre ++ (TScan d, r) :: post ->
  In d dirs \/ (exists d' fs ds, In (TScan d', RScan (Some (fs, ds))) pre /\ In d ds).
Proof. intros H. exact (only_required_processed fuel sched w pre (TScan d) r post H). Qed.

(* ---- Theorem C2: dependencies are only ever reported by first passes, and never in clean mode *)
Theorem deps_only_from_first_passes fuel sched w t g ds :
  In (t, RPp g (Some (PDeps ds))) (trace_of (run_loop orc cfg base fuel sched (gs (ginit files dirs)) w [])) ->
  t = TPp g true /\ cfg_mode cfg <> Clean.
Proof.
  intros H.
  destruct (run_loop_good fuel sched (ginit files dirs) w [] LInv_init) as [_ PR].
  destruct (PR _ _ H) as (w1 & w2 & Hex).
  pose proof (exec_task_answers _ _ _ _ _ _ _ Hex) as Ha.
  destruct t as [d|f b]; [destruct Ha|]. destruct Ha as [-> Hb]. split.
  - destruct b; [reflexivity|]. exfalso. now apply (Hb eq_refl ds).
  - intros Hc. cbn [exec_task] in Hex. rewrite Hc in Hex.
    destruct (pp_run orc Clean base f b (cfg_trailing cfg) w1) as [w3|deps w3|k w3|] eqn:E; inversion Hex; subst.
    now apply pp_run_clean_no_deps in E.
Qed.

(* in clean mode a file is processed only because it is an input or was found by a directory scan *)
Corollary clean_processed_file_required fuel sched w pre f b r post :
  cfg_mode cfg = Clean ->
  trace_of (run_loop orc cfg base fuel sched (gs (ginit files dirs)) w []) = pre ++ (TPp f b, r) :: post ->
  In f files \/ (exists d fs ds, In (TScan d, RScan (Some (fs, ds))) pre /\ In f fs).
Proof.
  intros Hc H. destruct (processed_file_required fuel sched w pre f b r post H) as [H1|[H1|(a & ds & H1 & _)]]; auto.
  exfalso. apply (deps_only_from_first_passes fuel sched w (TPp a true) a ds); [|exact Hc].
  rewrite H. apply in_or_app. now left.
Qed.

End C.

(* ---- the whole run (Txtpp::run): the inputs are what resolve_inputs returns *)
Theorem txtpp_run_only_required orc cfg fuel sched w base files dirs :
  (cfg_threads cfg =? 0)%N = false ->
  os_resolve (w_fs w) (cfg_base cfg) = Some base ->
  resolve_inputs (w_fs w) base (cfg_inputs cfg) [] [] = Some (files, dirs) ->
  well_justified files dirs (trace_of (txtpp_run orc cfg fuel sched w)).
Proof.
  intros Ht Hb Hr. unfold txtpp_run. rewrite Ht, Hb, Hr.
  apply (only_required_processed orc cfg base files dirs fuel sched w).
Qed.

(* ---------------------------------------------------------------- examples: the hypotheses are satisfiable *)
(* RunFacts.ex_cfg / ex_w: one directory /d containing a.txtpp; input "d".  The trace is: scan /d, then a.txtpp,
   which is processed because the scan returned it *)
Example exC_scan :
  trace_of (txtpp_run (fun _ _ _ => None) ex_cfg 10 [] ex_w)
  = [(TScan [[100]], RScan (Some ([[[100]; [97; 46; 116; 120; 116; 112; 112]]], [])));
     (TPp [[100]; [97; 46; 116; 120; 116; 112; 112]] true, RPp [[100]; [97; 46; 116; 120; 116; 112; 112]] (Some POk))]
  /\ well_justified [] [[[100]]] (trace_of (txtpp_run (fun _ _ _ => None) ex_cfg 10 [] ex_w)).
Proof.
  split; [vm_compute; reflexivity|].
  apply (txtpp_run_only_required _ ex_cfg 10 [] ex_w []); vm_compute; reflexivity.
Qed.

(* /d/a.txtpp = "TXTPP#include b", /d/b.txtpp = "hi"; the only input is d/a.txtpp: b.txtpp is processed only because
   the first pass of a.txtpp reported it; then a.txtpp gets its final pass *)
Definition exC_a : str := [97; 46; 116; 120; 116; 112; 112].
Definition exC_b : str := [98; 46; 116; 120; 116; 112; 112].
Definition exC_fs : fs :=
  [([[100]], Dir); ([[100]; exC_a], File (TXTPP_HASH ++ [105;110;99;108;117;100;101;32;98;10])); ([[100]; exC_b], File [104; 105; 10])].
Definition exC_cfg : config := mkCfg [] [[100; 47] ++ exC_a] false 1 InMemoryBuild false.
Example exC_dependency :
  trace_of (txtpp_run (fun _ _ _ => None) exC_cfg 10 [] (mkW exC_fs []))
  = [(TPp [[100]; exC_a] true, RPp [[100]; exC_a] (Some (PDeps [[[100]; exC_b]])));
     (TPp [[100]; exC_b] true, RPp [[100]; exC_b] (Some POk));
     (TPp [[100]; exC_a] false, RPp [[100]; exC_a] (Some POk))]
  /\ well_justified [[[100]; exC_a]] [] (trace_of (txtpp_run (fun _ _ _ => None) exC_cfg 10 [] (mkW exC_fs []))).
Proof.
  split; [vm_compute; reflexivity|].
  apply (txtpp_run_only_required _ exC_cfg 10 [] (mkW exC_fs []) []); vm_compute; reflexivity.
Qed.
