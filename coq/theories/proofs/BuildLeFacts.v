(* BuildLeFacts.v — property C12 through the BUILD sink and for whole runs: every generated file (output, temp file)
   uses one line ending, the one detected on the first line of ITS OWN source.
   Everything below is proved (nothing assumed); `Print Assumptions` of the deliverables is closed.

   PART 1  one pass on the Build sink, at the level of the items: the invariant `WInv` (world_ok; the output is an
           le-text; every file is an le-text or is what it was before the pass and has not been written).
   PART 2  Z1 / Z2 for one Build pass (`build_pass_le`, `build_output_le_uniform`, `temp_files_le_uniform_build`).
   PART 3  Z3 for whole runs (`run_outputs_le_uniform`).
   PART 4  non-vacuity: `run_outputs_le_uniform_nonvacuous_lf` (the tree of ScheduleTempFacts PART 6),
           `build_pass_le_nonvacuous`, `run_outputs_le_uniform_nonvacuous_mixed` (an LF source with a temp directive, a CRLF
           source with a temp directive and a command that includes the output of the LF source: two schedules),
           `stray_cr_reaches_output` (why the domain condition is needed). *)
Require Import Txtpp.Str Txtpp.Consts Txtpp.Grammar Txtpp.Tags Txtpp.Path Txtpp.Fs Txtpp.Sink Txtpp.Pp Txtpp.Spec.
Require Import Txtpp.Dep Txtpp.Coord Txtpp.Run.
Require Import Txtpp.proofs.StrFacts Txtpp.proofs.GrammarFacts Txtpp.proofs.TagsFacts Txtpp.proofs.SinkFacts Txtpp.proofs.PathFacts.
Require Import Txtpp.proofs.PpFacts Txtpp.proofs.EventFacts Txtpp.proofs.LeFacts Txtpp.proofs.FrameFacts Txtpp.proofs.CleanVerifyFacts.
Require Import Txtpp.proofs.MoreFacts1.
Require Import Txtpp.proofs.ConfluenceFacts Txtpp.proofs.DepFacts Txtpp.proofs.CoordFacts Txtpp.proofs.RunFacts Txtpp.proofs.ScheduleFacts.
Require Import Txtpp.proofs.RunEventsFacts Txtpp.proofs.ScheduleTempFacts Txtpp.proofs.IdemFacts.
From Coq Require Import Lia.

Local Open Scope bool_scope.

(* ================================================================================================
   PART 1 — the items of a pass on the Build sink
   ================================================================================================ *)
Lemma cr_only_app a b : cr_only_before_lf a -> cr_only_before_lf b -> cr_only_before_lf (a ++ b).
Proof.
  intros Ha Hb x r E.
  revert x E. induction a as [|c a IH]; intros x E.
  - cbn [app] in E. apply (Hb x r E).
  - destruct x as [|y x].
    + cbn [app] in E. inversion E; subst c r.
      destruct (Ha [] a eq_refl) as [r' ->]. exists (r' ++ b). reflexivity.
    + cbn [app] in E. inversion E; subst y.
      apply IH with (x := x); [|assumption].
      intros a0 r0 E0. apply (Ha (c :: a0) r0). rewrite E0. reflexivity.
Qed.

Section BuildLe.
Variable orc : oracle.
Variables src base : path.
Variable le : str.
Hypothesis Hle : is_le le.
Hypothesis Horc : forall c d f o, orc c d f = Some o -> cr_only_before_lf o.
Variable out : path.
Variable wi : world.        (* the world before the pass *)

(* the output, if it is a file, is an le-text *)
Definition out_le (w : world) : Prop := forall c, read_file (w_fs w) out = Some c -> le_text le c.
(* the log extends the log of wi; every file is an le-text, or holds what it held in wi and no write to it was logged *)
Definition delta (w : world) : Prop :=
  exists evs, w_log w = w_log wi ++ evs /\
    forall p c, read_file (w_fs w) p = Some c ->
      le_text le c \/ (read_file (w_fs wi) p = Some c /\ ~ In (EWrite p) evs).
Definition WInv (w : world) : Prop := world_ok w /\ out_le w /\ delta w.

Lemma read_put_same f q c c' : read_file (fs_put f q (File c)) q = Some c' -> c' = c.
Proof.
  unfold read_file. destruct q as [|n q]; [rewrite fs_get_nil_root; discriminate|].
  rewrite fs_get_put_same by discriminate. intros H. inversion H. reflexivity.
Qed.
Lemma read_put_other f q c p : q <> p -> read_file (fs_put f q (File c)) p = read_file f p.
Proof. intros Hne. unfold read_file. rewrite fs_get_put_other by exact Hne. reflexivity. Qed.

Lemma WInv_put0 w q c : le_text le c -> world_ok w -> delta w -> (q = out \/ out_le w) ->
  WInv (mkW (fs_put (w_fs w) q (File c)) (w_log w ++ [EWrite q])).
Proof.
  intros Hc Hw (evs & El & Hd) Hor. split; [|split].
  - intros p c' Hr. cbn [w_fs] in Hr. apply read_put in Hr as [-> | Hr].
    + apply (le_text_cr_only_before_lf le); assumption.
    + apply (Hw p c' Hr).
  - intros c' Hr. cbn [w_fs] in Hr. destruct (path_eqb q out) eqn:E.
    + apply path_eqb_eq in E. subst q. apply read_put_same in Hr. subst c'. exact Hc.
    + assert (Hne : q <> out) by (intros ->; rewrite path_eqb_refl in E; discriminate).
      destruct Hor as [Hq|Ho]; [contradiction|]. rewrite read_put_other in Hr by exact Hne. apply Ho. exact Hr.
  - exists (evs ++ [EWrite q]). cbn [w_log w_fs]. split; [rewrite El, app_assoc; reflexivity|].
    intros p c' Hr. destruct (path_eqb q p) eqn:E.
    + apply path_eqb_eq in E. subst p. left. apply read_put_same in Hr. subst c'. exact Hc.
    + assert (Hne : q <> p) by (intros ->; rewrite path_eqb_refl in E; discriminate).
      rewrite read_put_other in Hr by exact Hne.
      destruct (Hd p c' Hr) as [H|[H1 H2]]; [left; exact H|right]. split; [exact H1|].
      intros Hin. apply in_app_or in Hin. destruct Hin as [Hin|[Hin|[]]]; [exact (H2 Hin)|].
      inversion Hin. congruence.
Qed.
Lemma WInv_put w q c : le_text le c -> WInv w ->
  WInv (mkW (fs_put (w_fs w) q (File c)) (w_log w ++ [EWrite q])).
Proof. intros Hc (Hw & Ho & Hd). apply WInv_put0; auto. Qed.

Lemma delta_init : delta wi.
Proof.
  exists []. split; [rewrite app_nil_r; reflexivity|]. intros p c Hr. right. split; [exact Hr|intros []].
Qed.

Lemma WInv_emit w e : (forall p, e <> EWrite p) -> WInv w -> WInv (w_emit w e).
Proof.
  intros He (Hw & Ho & evs & El & Hd). split; [exact Hw|]. split; [exact Ho|].
  exists (evs ++ [e]). unfold w_emit. cbn [w_log w_fs]. split; [rewrite El, app_assoc; reflexivity|].
  intros p c Hr. destruct (Hd p c Hr) as [H|[H1 H2]]; [left; exact H|right]. split; [exact H1|].
  intros Hin. apply in_app_or in Hin. destruct Hin as [Hin|[Hin|[]]]; [exact (H2 Hin)|].
  apply (He p). exact Hin.
Qed.

Lemma WInv_write w lp c w' : le_text le c -> WInv w -> w_write w lp c = Some w' -> WInv w'.
Proof.
  intros Hc HI H. unfold w_write in H. destruct (write_target (w_fs w) lp) as [q|]; [|discriminate].
  inversion H; subst w'. apply WInv_put; assumption.
Qed.

Lemma WInv_append w c w' : le_text le c -> WInv w -> w_append w out c = Some w' -> WInv w'.
Proof.
  intros Hc HI H. destruct (w_append_spec _ _ _ _ H) as (old & R0 & _ & ->).
  apply WInv_put; [|exact HI]. apply le_text_app; [|exact Hc]. destruct HI as (_ & Ho & _). apply Ho. exact R0.
Qed.

Lemma WInv_write_temp w lp c w' : le_text le c -> WInv w -> write_temp w lp c = inl w' -> WInv w'.
Proof.
  intros Hc HI H. unfold write_temp in H. destruct (os_resolve (w_fs w) lp) as [q|].
  - destruct (fs_get (w_fs w) q) as [[c0|]|]; try discriminate.
    destruct (str_eqb c0 c); [inversion H; subst; exact HI|].
    destruct (w_write w q c) as [w1|] eqn:E; [|discriminate]. inversion H; subst.
    exact (WInv_write w q c w' Hc HI E).
  - destruct (w_write w lp []) as [w1|] eqn:E; [|discriminate].
    assert (HI1 : WInv w1) by (exact (WInv_write w lp [] w1 (lt_nil le) HI E)).
    destruct c as [|x c]; [inversion H; subst; exact HI1|].
    destruct (w_write w1 lp (x :: c)) as [w2|] eqn:E2; [|discriminate]. inversion H; subst.
    exact (WInv_write w1 lp (x :: c) w' Hc HI1 E2).
Qed.

Lemma WInv_exec_temp args w w' :
  Forall clean_line args -> WInv w -> exec_temp src le args false w = inl w' -> WInv w'.
Proof.
  intros Ha HI H. unfold exec_temp in H. destruct args as [|export rest]; [discriminate|].
  destruct (is_txtpp_file (lex_components export)); [discriminate|].
  eapply WInv_write_temp; [|exact HI|exact H].
  apply format_output_le_text; [exact Hle | apply clean_line_nil | now inversion Ha].
Qed.

Ltac xd H :=
  unfold exec_directive, collect_deps in H;
  repeat (match type of H with context [match ?x with _ => _ end] =>
            (lazymatch x with context [match _ with _ => _ end] => fail | _ => idtac end);
            destruct x eqn:? end);
  try discriminate; inversion H; subst; clear H.

Lemma WInv_exec_directive d s o s' :
  Forall clean_line (d_args d) -> WInv (wld s) ->
  exec_directive orc Build src base le d s = XOut o s' -> WInv (wld s').
Proof.
  intros Ha HI H. xd H; cbn [wld set_wld set_pmode set_tg]; try exact HI;
    try (eapply WInv_exec_temp; eassumption);
    (apply WInv_emit; [discriminate|exact HI]).
Qed.

Lemma WInv_item_output it s o s' :
  item_clean it -> WInv (wld s) ->
  item_output orc Build src base le it s = IOut o s' -> WInv (wld s').
Proof.
  intros Hit HI. destruct it as [l|d fol| |]; cbn [item_output item_clean] in *; intros H; try discriminate.
  - destruct (is_execute (pmode s)); [|inversion H; subst; exact HI].
    destruct (inject (tg s) l le) as [[l' t']|]; [|discriminate]. inversion H; subst. exact HI.
  - destruct (exec_directive orc Build src base le d s) as [[raw|] s1|k w] eqn:E; try discriminate.
    + apply WInv_exec_directive in E; [|tauto|exact HI].
      destruct (try_store (tg s1) raw); inversion H; subst; exact E.
    + apply WInv_exec_directive in E; [|tauto|exact HI]. inversion H; subst; exact E.
Qed.

(* the invariant of the line loop *)
Definition PInv (s : pst) : Prop := snk s = SBuild out /\ tags_ok (tg s) /\ WInv (wld s).

Lemma WInv_sink_write w c k' w' : le_text le c -> WInv w -> sink_write (SBuild out) w c = inl (k', w') ->
  k' = SBuild out /\ WInv w'.
Proof.
  intros Hc HI H. cbn [sink_write] in H. destruct (w_append w out c) as [w1|] eqn:E; [|discriminate].
  inversion H; subst. split; [reflexivity|]. eapply WInv_append; eauto.
Qed.

Lemma PInv_emit s o t s' :
  PInv s -> (forall x, o = Some x -> le_text le x) -> emit le s o t = StOk s' -> PInv s'.
Proof.
  intros (Hk & Ht & HI) Ho H. unfold emit in H.
  destruct (is_execute (pmode s)); [|inversion H; subst; exact (conj Hk (conj Ht HI))].
  destruct o as [x|]; [|inversion H; subst; exact (conj Hk (conj Ht HI))].
  specialize (Ho x eq_refl). rewrite Hk in H.
  assert (H1 : forall k1 w1,
    (if flag s then sink_write (SBuild out) (wld s) le else inl (SBuild out, wld s)) = inl (k1, w1) ->
    k1 = SBuild out /\ WInv w1).
  { intros k1 w1 E. destruct (flag s).
    - eapply WInv_sink_write; [apply le_text_le|exact HI|exact E].
    - inversion E; subst. split; [reflexivity|exact HI]. }
  destruct (if flag s then sink_write (SBuild out) (wld s) le else inl (SBuild out, wld s)) as [[k1 w1]|k];
    [|discriminate].
  destruct (H1 k1 w1 eq_refl) as [-> HI1].
  destruct (sink_write (SBuild out) w1 x) as [[k2 w2]|k] eqn:E2; [|discriminate].
  destruct (WInv_sink_write _ _ _ _ Ho HI1 E2) as [-> HI2].
  inversion H; subst. split; [reflexivity|]. split; [exact Ht|exact HI2].
Qed.

Theorem run_items_PInv its : forall s s' cs,
  Forall item_clean its -> PInv s ->
  run_items orc Build src base le its s = (StOk s', cs) -> PInv s'.
Proof.
  induction its as [|it r IH]; intros s s' cs Hits HP H.
  - cbn [run_items] in H. inversion H; subst. exact HP.
  - inversion Hits as [|? ? Hit Hr]; subst.
    apply run_items_cons_inv in H as (o & s1 & s2 & cs' & Hi & He & Hrun & _).
    destruct HP as (Hk & Ht & HI). pose proof HI as (Hw & _).
    destruct (item_output_ok orc Build src base le Hle Horc _ _ _ _ Hit Hw Ht Hi) as (_ & Ht1 & Ho).
    pose proof (WInv_item_output _ _ _ _ Hit HI Hi) as HI1.
    apply item_output_frame in Hi as [_ Hs1].
    assert (HP1 : PInv s1) by (split; [rewrite Hs1; exact Hk|split; assumption]).
    apply (IH s2 s' cs' Hr (PInv_emit _ _ _ _ HP1 Ho He) Hrun).
Qed.

(* the epilogue on the Build sink *)
Lemma epilogue_PInv tn s1 w' : PInv s1 -> epilogue Build le tn s1 = PpOk w' -> WInv w'.
Proof.
  intros (Hk & Ht & HI) H. unfold epilogue in H.
  assert (T : (if has_tags (tg s1) && negb (mode_eqb Build Clean) then PpErr KDirective (wld s1)
               else match (if flag s1 && tn then sink_write (snk s1) (wld s1) le else inl (snk s1, wld s1)) with
                    | inl (k1, w1) => match sink_done k1 w1 with inl w2 => PpOk w2 | inr k => PpErr k w1 end
                    | inr k => PpErr k (wld s1)
                    end) = PpOk w' -> WInv w').
  { destruct (has_tags (tg s1) && negb (mode_eqb Build Clean)); [discriminate|]. rewrite Hk.
    destruct (flag s1 && tn).
    - destruct (sink_write (SBuild out) (wld s1) le) as [[k1 w1]|] eqn:Es; [|discriminate].
      destruct (WInv_sink_write _ _ _ _ (le_text_le le) HI Es) as [-> HI1].
      cbn [sink_done]. intros E; inversion E; subst. exact HI1.
    - cbn [sink_done]. intros E; inversion E; subst. exact HI. }
  destruct (pmode s1); [exact (T H)|exact (T H)|discriminate].
Qed.
Lemma epilogue_PInv_deps tn s1 ds w' : PInv s1 -> epilogue Build le tn s1 = PpHasDeps ds w' -> WInv w'.
Proof.
  intros (Hk & Ht & HI) H. unfold epilogue in H.
  destruct (pmode s1).
  - destruct (has_tags (tg s1) && negb (mode_eqb Build Clean)); [discriminate|].
    destruct (if flag s1 && tn then sink_write (snk s1) (wld s1) le else inl (snk s1, wld s1)) as [[k1 w1]|]; [|discriminate].
    destruct (sink_done k1 w1); discriminate.
  - destruct (has_tags (tg s1) && negb (mode_eqb Build Clean)); [discriminate|].
    destruct (if flag s1 && tn then sink_write (snk s1) (wld s1) le else inl (snk s1, wld s1)) as [[k1 w1]|]; [|discriminate].
    destruct (sink_done k1 w1); discriminate.
  - inversion H; subst. exact HI.
Qed.
End BuildLe.

(* ================================================================================================
   PART 2 — Z1 / Z2: one Build pass (first or final)
   ================================================================================================ *)
Lemma take_valid_incl ls l : In l (fst (take_valid ls)) -> In l ls.
Proof.
  induction ls as [|x r IH]; cbn [take_valid]; [intros []|].
  destruct (utf8_valid x); [|intros []].
  destruct (take_valid r) as [g b]. cbn [fst] in *. intros [->|H]; [left; reflexivity|right; auto].
Qed.

Lemma items_of'_clean raw : cr_only_before_lf raw -> Forall item_clean (items_of' Build raw).
Proof.
  intros Hraw. unfold items_of'. apply parse_items_clean; [|exact I].
  apply Forall_forall. intros l Hl. apply take_valid_incl in Hl.
  pose proof (lines_clean raw Hraw) as H. rewrite Forall_forall in H. apply H. exact Hl.
Qed.

(* where the creation of the output lands when the directory of the source is canonical *)
Lemma build_trunc_target w src out w0 :
  remove_txtpp src = Some out -> all_normal (parent src) -> w_write w out [] = Some w0 ->
  w0 = mkW (fs_put (w_fs w) out (File [])) (w_log w ++ [EWrite out]).
Proof.
  intros Ho Hn Ew. unfold w_write in Ew. destruct (write_target (w_fs w) out) as [q|] eqn:Et; [|discriminate].
  inversion Ew; subst w0.
  destruct (remove_txtpp_shape src out Ho) as (dir & n & m & Es & Eo).
  assert (Hdir : all_normal dir) by (unfold parent in Hn; rewrite Es, removelast_last in Hn; exact Hn).
  destruct (EventFacts.write_target_shape _ _ _ Et) as (rp & n' & Ep & _ & Eq).
  rewrite Eo in Ep. apply app_inj_tail in Ep. destruct Ep as [<- <-].
  rewrite (lex_normalize_normal dir Hdir) in Eq. subst q. rewrite <- Eo. reflexivity.
Qed.

(* THE STATEMENT for one pass.  A Build pass (first or final) over a source `src` whose directory is canonical, in a
   world `w` all of whose files have CR only before LF (the source, every file that can be included), with a command
   oracle whose outputs have CR only before LF.  If the pass succeeds or reports dependencies, in the world `w'` it leaves:
   - every file still has CR only before LF (so the condition is an invariant of the run);
   - the output is a file, and it is an le-text for the line ending of the first line of the source;
   - every file either is an le-text for that line ending, or holds exactly what it held before the pass and the part
     of the log added by the pass contains no write to it. *)
Theorem build_pass_le orc base src first tn w raw out :
  (forall c d f o, orc c d f = Some o -> cr_only_before_lf o) ->
  world_ok w ->
  read_file (w_fs w) src = Some raw -> remove_txtpp src = Some out -> all_normal (parent src) ->
  match pp_run orc Build base src first tn w with
  | PpOk w' | PpHasDeps _ w' =>
    WInv (detect_le raw) out w w' /\ exists c, read_file (w_fs w') out = Some c /\ le_text (detect_le raw) c
  | _ => True
  end.
Proof.
  intros Horc Hw Hr Ho Hn.
  set (le := detect_le raw).
  assert (Hle : is_le le) by apply detect_le_is_le.
  assert (Hraw : cr_only_before_lf raw) by (apply (Hw src raw Hr)).
  rewrite (pp_run_build_unfold orc base src first tn w raw out Hr Ho).
  destruct (is_txtpp_file out); [exact I|].
  destruct (w_write w out []) as [w0|] eqn:Ew; [|exact I].
  pose proof (build_trunc_target w src out w0 Ho Hn Ew) as E0.
  assert (HI0 : WInv le out w w0).
  { rewrite E0. apply WInv_put0; [exact Hle|apply lt_nil|exact Hw|apply delta_init|left; reflexivity]. }
  assert (F0 : is_file (w_fs w0) out = true).
  { rewrite E0. cbn [w_fs]. unfold is_file. rewrite fs_get_put_same; [reflexivity|].
    destruct (remove_txtpp_shape src out Ho) as (dir & n & m & _ & ->). destruct dir; discriminate. }
  destruct (snd (take_valid (lines raw))) eqn:Ebad.
  { unfold pp_rest. destruct (take_valid (lines raw)) as [ls bad]. cbn [snd] in Ebad. subst bad.
    destruct (run_lines orc Build src base (detect_le raw) ls _); exact I. }
  rewrite (pp_rest_spec orc Build base src first tn raw (SBuild out) w0 Ebad). fold le.
  set (s0 := mkP None false (if first then PFirst else PExec) tags_new (SBuild out) w0).
  unfold spec_out.
  destruct (run_items orc Build src base le (items_of' Build raw) s0) as [res cs] eqn:R. cbn [fst].
  destruct res as [s1|k w1|]; try exact I.
  assert (HP0 : PInv le out w s0).
  { split; [reflexivity|]. split; [intros k v []|exact HI0]. }
  pose proof (run_items_PInv orc src base le Hle Horc out w _ _ _ _ (items_of'_clean raw Hraw) HP0 R) as HP1.
  assert (HB0 : BInv out s0) by (split; [reflexivity|discriminate]).
  destruct (run_items_BInv orc src base le out _ _ _ _ HB0 R) as [[Hk Hf] M].
  specialize (M out F0). cbn [wld] in M.
  assert (Fin : forall w', WInv le out w w' -> files_mono (wld s1) w' ->
            WInv le out w w' /\ exists c, read_file (w_fs w') out = Some c /\ le_text le c).
  { intros w' HI Hm. split; [exact HI|]. apply Hm in M. apply is_file_read in M. destruct M as [c Hc].
    exists c. split; [exact Hc|]. destruct HI as (_ & Hout & _). apply Hout. exact Hc. }
  destruct (epilogue Build le tn s1) as [w'|ds w'|k w'|] eqn:Ep; try exact I.
  - apply Fin; [eapply epilogue_PInv; eauto|].
    (* the epilogue only appends *)
    unfold epilogue in Ep. rewrite Hk in Ep.
    assert (T : (if has_tags (tg s1) && negb (mode_eqb Build Clean) then PpErr KDirective (wld s1)
                 else match (if flag s1 && tn then sink_write (SBuild out) (wld s1) le else inl (SBuild out, wld s1)) with
                      | inl (k1, w1) => match sink_done k1 w1 with inl w2 => PpOk w2 | inr k => PpErr k w1 end
                      | inr k => PpErr k (wld s1)
                      end) = PpOk w' -> files_mono (wld s1) w').
    { destruct (has_tags (tg s1) && negb (mode_eqb Build Clean)); [discriminate|].
      destruct (flag s1 && tn).
      - destruct (sink_write (SBuild out) (wld s1) le) as [[k1 w1]|] eqn:Es; [|discriminate].
        pose proof (sink_write_files_mono _ _ _ _ _ Es) as M1.
        cbn [sink_write] in Es. destruct (w_append (wld s1) out le); [|discriminate].
        inversion Es; subst. cbn [sink_done]. intros E; inversion E; subst. exact M1.
      - cbn [sink_done]. intros E; inversion E; subst. apply files_mono_refl. }
    destruct (pmode s1); [exact (T Ep)|exact (T Ep)|discriminate].
  - apply Fin; [eapply epilogue_PInv_deps; eauto|].
    unfold epilogue in Ep. destruct (pmode s1).
    + destruct (has_tags (tg s1) && negb (mode_eqb Build Clean)); [discriminate|].
      destruct (if flag s1 && tn then sink_write (snk s1) (wld s1) le else inl (snk s1, wld s1)) as [[k1 w1]|]; [|discriminate].
      destruct (sink_done k1 w1); discriminate.
    + destruct (has_tags (tg s1) && negb (mode_eqb Build Clean)); [discriminate|].
      destruct (if flag s1 && tn then sink_write (snk s1) (wld s1) le else inl (snk s1, wld s1)) as [[k1 w1]|]; [|discriminate].
      destruct (sink_done k1 w1); discriminate.
    + inversion Ep; subst. apply files_mono_refl.
Qed.

(* the two corollaries in the vocabulary of Tags/LeFacts (`le_uniform`) *)
Corollary build_output_le_uniform orc base src first tn w raw out w' :
  (forall c d f o, orc c d f = Some o -> cr_only_before_lf o) ->
  world_ok w ->
  read_file (w_fs w) src = Some raw -> remove_txtpp src = Some out -> all_normal (parent src) ->
  (pp_run orc Build base src first tn w = PpOk w' \/
   exists ds, pp_run orc Build base src first tn w = PpHasDeps ds w') ->
  exists c, read_file (w_fs w') out = Some c /\ le_uniform (detect_le raw) c.
Proof.
  intros Horc Hw Hr Ho Hn H.
  pose proof (build_pass_le orc base src first tn w raw out Horc Hw Hr Ho Hn) as B.
  assert (X : WInv (detect_le raw) out w w' /\ exists c, read_file (w_fs w') out = Some c /\ le_text (detect_le raw) c).
  { destruct H as [E|[ds E]]; rewrite E in B; exact B. }
  destruct X as [_ (c & Hc & Hl)]. exists c. split; [exact Hc|].
  apply le_text_uniform; [apply detect_le_is_le|exact Hl].
Qed.

(* the part of the log added after w *)
Definition new_events (w w' : world) : list event := skipn (length (w_log w)) (w_log w').

Corollary temp_files_le_uniform_build orc base src first tn w raw out w' :
  (forall c d f o, orc c d f = Some o -> cr_only_before_lf o) ->
  world_ok w ->
  read_file (w_fs w) src = Some raw -> remove_txtpp src = Some out -> all_normal (parent src) ->
  (pp_run orc Build base src first tn w = PpOk w' \/
   exists ds, pp_run orc Build base src first tn w = PpHasDeps ds w') ->
  world_ok w' /\
  forall p c, read_file (w_fs w') p = Some c ->
    (In (EWrite p) (new_events w w') \/ read_file (w_fs w) p <> Some c) ->
    le_uniform (detect_le raw) c.
Proof.
  intros Horc Hw Hr Ho Hn H.
  pose proof (build_pass_le orc base src first tn w raw out Horc Hw Hr Ho Hn) as B.
  assert (X : WInv (detect_le raw) out w w' /\ exists c, read_file (w_fs w') out = Some c /\ le_text (detect_le raw) c).
  { destruct H as [E|[ds E]]; rewrite E in B; exact B. }
  destruct X as [(Hw' & _ & evs & El & Hd) _]. split; [exact Hw'|].
  intros p c Hc Hor. apply le_text_uniform; [apply detect_le_is_le|].
  destruct (Hd p c Hc) as [Hl|[Hsame Hnev]]; [exact Hl|exfalso].
  destruct Hor as [Hin|Hne]; [|exact (Hne Hsame)].
  apply Hnev. unfold new_events in Hin. rewrite El in Hin.
  rewrite skipn_app, skipn_all, Nat.sub_diag in Hin. exact Hin.
Qed.

(* ================================================================================================
   PART 3 — Z3: whole runs
   ================================================================================================ *)
Lemma path_eq_dec (a b : path) : a = b \/ a <> b.
Proof.
  destruct (path_eqb a b) eqn:E; [left; apply path_eqb_eq; exact E|right].
  intros ->. rewrite path_eqb_refl in E. discriminate.
Qed.

Lemma new_events_ext w w' evs : w_log w' = w_log w ++ evs -> new_events w w' = evs.
Proof. intros E. unfold new_events. rewrite E, skipn_app, skipn_all, Nat.sub_diag. reflexivity. Qed.

Section LeLoop.
Variable orc : oracle.
Variable cfg : config.
Variable base : path.
Hypothesis Hmd : cfg_mode cfg = Build.
Variable w0 : world.
Hypothesis HS : sched_ok_temps w0.
Hypothesis N : raw_ok w0.
Hypothesis Horc : forall c d f o, orc c d f = Some o -> cr_only_before_lf o.
Hypothesis Hw0 : world_ok w0.
Variables files dirs : list path.

(* what holds of the footprint of the source f (raw content `raw` in the initial tree) in the world w after the trace tr:
   every file of the footprint is an le-text for the line ending of f, or holds what it held initially and no write to it
   has been logged; once a pass over f is in the trace the output of f is a file, and an le-text *)
Definition le_fp (w : world) (tr : list (task * result)) (f out : path) (raw : str) : Prop :=
  (forall p c, In p (fp w0 f) -> read_file (w_fs w) p = Some c ->
     le_text (detect_le raw) c \/ (read_file (w_fs w0) p = Some c /\ ~ In (EWrite p) (new_events w0 w))) /\
  ((exists b r, In (TPp f b, r) tr) ->
     exists c, read_file (w_fs w) out = Some c /\ le_text (detect_le raw) c).

Definition JL (g : gstate) (w : world) (tr : list (task * result)) : Prop :=
  JT cfg w0 g w tr /\ world_ok w /\ (exists evs0, w_log w = w_log w0 ++ evs0) /\
  forall f out raw, remove_txtpp f = Some out -> read_file (w_fs w0) f = Some raw -> le_fp w tr f out raw.

Lemma JL_init : JL (ginit files dirs) w0 [].
Proof.
  split; [apply JT_init; exact N|]. split; [exact Hw0|].
  split; [exists []; rewrite app_nil_r; reflexivity|].
  intros f out raw Ho Hr. split.
  - intros p c _ Hc. right. split; [exact Hc|]. unfold new_events. rewrite skipn_all. intros [].
  - intros (b & r & []).
Qed.

Lemma JL_step g w tr t rest r w' s2 :
  greach files dirs g -> JL g w tr -> Permutation.Permutation (inflight (gs g)) (t :: rest) ->
  exec_task orc cfg base t w = Some (r, w') -> handle (with_inflight (gs g) rest) r = Continue s2 ->
  JL (mkG s2 (report t r (reported g)) (history g ++ [t])) w' (tr ++ [(t, r)]).
Proof.
  intros R (HJ & Hw & [evs0 El0] & HL) HP Hex Hh.
  split; [apply (JT_step orc cfg base Hmd w0 HS files dirs g w tr t rest r w' s2); assumption|].
  pose proof HJ as (([(A & _) _] & _) & _).
  destruct t as [d|h b].
  - cbn [exec_task] in Hex. inversion Hex; subst r w'. clear Hex.
    split; [exact Hw|]. split; [exists evs0; exact El0|].
    intros f out raw Ho Hr. destruct (HL f out raw Ho Hr) as [L1 L2]. split; [exact L1|].
    intros (b & r & Hin). apply L2. apply in_app_or in Hin. destruct Hin as [Hin|[Hin|[]]]; [exists b, r; exact Hin|discriminate].
  - rewrite exec_task_pp in Hex. rewrite Hmd in Hex. cbv zeta in Hex.
    destruct (pass_effectT orc cfg base w0 HS w h b A) as [Eff _].
    set (o := pp_run orc Build base h b (cfg_trailing cfg) w) in *.
    destruct (res_of_tag h (tag_of o)) as [r'|] eqn:Er'; [|discriminate]. inversion Hex; subst r' w'. clear Hex.
    (* the pass succeeded or reported dependencies: its source is a source of the initial tree *)
    destruct (read_file (w_fs w) h) as [rawh|] eqn:Erd.
    2:{ unfold o in Er'. rewrite (pp_run_unreadable _ _ _ _ _ _ w Erd) in Er'. cbn in Er'. inversion Er'; subst r.
        cbn in Hh. discriminate. }
    destruct (remove_txtpp h) as [outh|] eqn:Hoh.
    2:{ unfold o in Er'. rewrite (pp_run_no_out _ _ _ _ _ _ w Hoh) in Er'. cbn in Er'. inversion Er'; subst r.
        cbn in Hh. discriminate. }
    pose proof (source_in_world w0 w h outh rawh A Hoh Erd) as Hsrch.
    destruct (src_sameT w0 HS w h outh A Hsrch) as (Eg & _ & Ewr & _).
    assert (Erd0 : read_file (w_fs w0) h = Some rawh) by (unfold read_file in *; rewrite <- Eg; exact Erd).
    destruct (HS h outh Hsrch) as (Hn & _).
    pose proof (build_pass_le orc base h b (cfg_trailing cfg) w rawh outh Horc Hw Erd Hoh Hn) as B. fold o in B.
    assert (X : (WInv (detect_le rawh) outh w (out_world o w) /\
                 exists c, read_file (w_fs (out_world o w)) outh = Some c /\ le_text (detect_le rawh) c) /\
                (o = PpOk (out_world o w) \/ exists ds, o = PpHasDeps ds (out_world o w))).
    { destruct o as [a|ds a|k a|]; cbn in Er'; inversion Er'; subst r; cbn [out_world]; try (cbn in Hh; discriminate).
      - split; [exact B|left; reflexivity].
      - split; [exact B|right; exists ds; reflexivity]. }
    destruct X as [[(Hw' & _ & evs & El & Hd) Hex'] Ho'].
    (* the events of the pass are on its footprint *)
    assert (Hev : forall p, In (EWrite p) evs -> In p (fp w0 h)).
    { destruct (pp_run_events_general orc Build h base b (cfg_trailing cfg) w outh Hoh (out_world o w)) as (evs' & Hext & Hall).
      { destruct Ho' as [E|[ds E]]; [left; exact E|right; left; exists ds; exact E]. }
      unfold extends in Hext. rewrite El in Hext. apply app_inv_head in Hext. subst evs'.
      intros p Hin. rewrite Forall_forall in Hall. specialize (Hall _ Hin). unfold ev_allowed in Hall. cbn [ev_path] in Hall.
      rewrite <- Ewr. unfold writes_of. rewrite Hoh. exact Hall. }
    assert (El' : w_log (out_world o w) = w_log w0 ++ (evs0 ++ evs)) by (rewrite El, El0, app_assoc; reflexivity).
    split; [exact Hw'|]. split; [exists (evs0 ++ evs); exact El'|].
    intros f out raw Ho Hr. destruct (HL f out raw Ho Hr) as [L1 L2].
    rewrite (new_events_ext _ _ _ El0) in L1.
    destruct (path_eq_dec f h) as [->|Hne].
    + rewrite Hoh in Ho. inversion Ho; subst out. rewrite Erd0 in Hr. inversion Hr; subst raw. split.
      * intros p c Hp Hc. rewrite (new_events_ext _ _ _ El').
        destruct (Hd p c Hc) as [Hl|[Hsame Hnev]]; [left; exact Hl|].
        destruct (L1 p c Hp Hsame) as [Hl|[Hs0 Hn0]]; [left; exact Hl|right]. split; [exact Hs0|].
        intros Hin. apply in_app_or in Hin. destruct Hin; contradiction.
      * intros _. exact Hex'.
    + assert (Hsrc : is_source w0 f out) by (split; [exact Ho|exists raw; exact Hr]).
      assert (Hdj : forall p, In p (fp w0 f) -> ~ In p (fp w0 h)).
      { intros p Hp Hph. destruct (HS f out Hsrc) as (_ & _ & _ & _ & _ & Hx).
        destruct (Hx h outh Hsrch (fun E => Hne (eq_sym E))) as [Hd' _]. exact (Hd' p Hph Hp). }
      assert (Efp : forall p, In p (fp w0 f) -> fs_get (w_fs (out_world o w)) p = fs_get (w_fs w) p).
      { intros p Hp. apply Eff. intros outh' _ Hph. exact (Hdj p Hp Hph). }
      split.
      * intros p c Hp Hc. rewrite (new_events_ext _ _ _ El').
        assert (Hc0 : read_file (w_fs w) p = Some c) by (unfold read_file in *; rewrite <- (Efp p Hp); exact Hc).
        destruct (L1 p c Hp Hc0) as [Hl|[Hs0 Hn0]]; [left; exact Hl|right]. split; [exact Hs0|].
        intros Hin. apply in_app_or in Hin. destruct Hin as [Hin|Hin]; [exact (Hn0 Hin)|].
        exact (Hdj p Hp (Hev p Hin)).
      * intros (b' & r' & Hin). apply in_app_or in Hin.
        destruct Hin as [Hin|[Hin|[]]]; [|inversion Hin; subst; contradiction].
        destruct (L2 (ex_intro _ b' (ex_intro _ r' Hin))) as (c & Hc & Hl). exists c. split; [|exact Hl].
        assert (Hp : In out (fp w0 f)) by (rewrite (fp_shape w0 f out Ho); right; left; reflexivity).
        unfold read_file in *. rewrite (Efp out Hp). exact Hc.
Qed.

Lemma le_loop fuel sched :
  let x := run_loop orc cfg base fuel sched (gs (ginit files dirs)) w0 [] in
  verdict_of x = VOk ->
  world_ok (world_of x) /\
  forall f out raw, remove_txtpp f = Some out -> read_file (w_fs w0) f = Some raw ->
    le_fp (world_of x) (trace_of x) f out raw.
Proof.
  intros x Hv.
  destruct (run_loop_inv_tr orc cfg base files dirs JL JL_step fuel sched (ginit files dirs) w0 []
              (greach_init files dirs) JL_init Hv) as (g & _ & _ & _ & _ & (_ & Hw & _ & HL)).
  split; assumption.
Qed.
End LeLoop.

(* THE STATEMENT for whole runs (Z3).  A Build run, ANY schedule, ANY fuel, from a tree `w` that satisfies the static
   hypotheses of ScheduleTempFacts (`raw_ok`, `sched_ok_temps`) and the domain condition of LeFacts: every file of the
   initial tree has CR only before LF (`world_ok w`), and so has every command output.  If the verdict is VOk:
   - the domain condition still holds of the final tree;
   - for every processed source f (raw content `raw`, unchanged by the run; output `out`): the output is a file that is
     `le_uniform` for the line ending detected on the first line of f ITSELF — whatever the line endings of the sources
     whose outputs it includes — and every path of the footprint of f (output and temp targets) that is a file either is
     `le_uniform` for that line ending, or holds what it held in the initial tree and the run logged no write to it:
     every generated file (output or temp file) of f uses the line ending of f. *)
Theorem run_outputs_le_uniform orc cfg fuel sched w :
  cfg_mode cfg = Build -> raw_ok w -> sched_ok_temps w ->
  world_ok w -> (forall c d f o, orc c d f = Some o -> cr_only_before_lf o) ->
  let x := txtpp_run orc cfg fuel sched w in
  verdict_of x = VOk ->
  world_ok (world_of x) /\
  forall f, processed x f ->
    exists out raw,
      remove_txtpp f = Some out /\ read_file (w_fs w) f = Some raw /\
      read_file (w_fs (world_of x)) f = Some raw /\
      (exists c, read_file (w_fs (world_of x)) out = Some c /\ le_uniform (detect_le raw) c) /\
      (forall p c, In p (fp w f) -> read_file (w_fs (world_of x)) p = Some c ->
         le_uniform (detect_le raw) c \/
         (read_file (w_fs w) p = Some c /\ ~ In (EWrite p) (new_events w (world_of x)))).
Proof.
  intros Hmd N HS Hw Horc x Hv.
  destruct (ok_run_summary orc cfg fuel sched w Hmd N HS Hv) as (_ & _ & Hsrc & _ & A & _). fold x in Hsrc, A.
  subst x.
  destruct (txtpp_run_ok_unfold orc cfg fuel sched w Hv) as (base & files & dirs & _ & _ & Ex).
  rewrite Ex in *.
  destruct (le_loop orc cfg base Hmd w HS N Horc Hw files dirs fuel sched Hv) as [Hwx HL].
  split; [exact Hwx|]. intros f Hf.
  destruct (Hsrc f Hf) as [[out [Ho [raw Hr]]] _]. exists out, raw.
  split; [exact Ho|]. split; [exact Hr|].
  destruct (HL f out raw Ho Hr) as [L1 L2].
  assert (Hle : is_le (detect_le raw)) by apply detect_le_is_le.
  split; [|split].
  - unfold read_file in *. rewrite <- (proj1 A f); [exact Hr|].
    apply nt_false. eapply remove_txtpp_is_txtpp; eauto.
  - destruct (L2 Hf) as (c & Hc & Hl). exists c. split; [exact Hc|]. apply le_text_uniform; assumption.
  - intros p c Hp Hc. destruct (L1 p c Hp Hc) as [Hl|Hs]; [left; apply le_text_uniform; assumption|right; exact Hs].
Qed.

(* ================================================================================================
   PART 4 — non-vacuity
   ================================================================================================ *)
(* a checker for the domain condition *)
Fixpoint cr_okb (s : str) : bool :=
  match s with
  | [] => true
  | c :: r => (if c =? CRb then match r with d :: _ => d =? LFb | [] => false end else true) && cr_okb r
  end.
Lemma cr_okb_sound s : cr_okb s = true -> cr_only_before_lf s.
Proof.
  induction s as [|c s IH]; intros H a r E.
  - destruct a; discriminate.
  - cbn [cr_okb] in H. apply andb_prop in H. destruct H as [H1 H2].
    destruct a as [|x a].
    + cbn [app] in E. inversion E; subst c s. change (CRb =? CRb) with true in H1. cbv iota in H1.
      destruct r as [|d r']; [discriminate|]. apply N.eqb_eq in H1. subst d. exists r'. reflexivity.
    + cbn [app] in E. inversion E; subst x s. apply (IH H2 a r eq_refl).
Qed.
Definition world_okb (w : world) : bool :=
  forallb (fun e => match snd e with File c => cr_okb c | Dir => true end) (w_fs w).
Lemma world_okb_sound w : world_okb w = true -> world_ok w.
Proof.
  intros H q c Hr. unfold read_file in Hr. destruct (fs_get (w_fs w) q) as [[c'|]|] eqn:G; try discriminate.
  inversion Hr; subst c'.
  assert (Hq : q <> []) by (intros ->; rewrite fs_get_nil_root in G; discriminate).
  apply fs_get_in in G; [|exact Hq]. unfold world_okb in H. rewrite forallb_forall in H.
  specialize (H _ G). cbn [snd] in H. apply cr_okb_sound. exact H.
Qed.

(* ---- the tree of ScheduleTempFacts PART 6 (two LF sources, b.txtpp includes the output of a.txtpp, a temp directive) ---- *)
Lemma t_world_ok : world_ok t_w.
Proof. apply world_okb_sound. vm_compute. reflexivity. Qed.
Lemma cx_orc_ok : forall c d f o, cx_orc c d f = Some o -> cr_only_before_lf o.
Proof. intros c d f o H. discriminate. Qed.

Example run_outputs_le_uniform_nonvacuous_lf :
  forall sched, sched = [] \/ sched = [0; 1; 0; 0]%nat ->
  let x := txtpp_run cx_orc t_cfg 9 sched t_w in
  verdict_of x = VOk /\ processed x t_a /\ processed x t_b /\
  (exists c, read_file (w_fs (world_of x)) t_aout = Some c /\ le_uniform [LFb] c) /\
  (exists c, read_file (w_fs (world_of x)) t_bout = Some c /\ le_uniform [LFb] c).
Proof.
  intros sched Hs. cbv zeta.
  assert (E : verdict_of (txtpp_run cx_orc t_cfg 9 sched t_w) = VOk) by (destruct Hs as [-> | ->]; vm_compute; reflexivity).
  destruct (run_outputs_le_uniform cx_orc t_cfg 9 sched t_w eq_refl t_raw_ok t_sched_ok t_world_ok cx_orc_ok E) as [_ H].
  assert (Pa : processed (txtpp_run cx_orc t_cfg 9 sched t_w) t_a).
  { exists true, (RPp t_a (Some POk)). destruct Hs as [-> | ->]; vm_compute; tauto. }
  assert (Pb : processed (txtpp_run cx_orc t_cfg 9 sched t_w) t_b).
  { exists false, (RPp t_b (Some POk)). destruct Hs as [-> | ->]; vm_compute; tauto. }
  split; [exact E|]. split; [exact Pa|]. split; [exact Pb|]. split.
  - destruct (H t_a Pa) as (out & raw & Ho & Hr & _ & Hc & _).
    vm_compute in Ho. inversion Ho; subst out. vm_compute in Hr. inversion Hr; subst raw. exact Hc.
  - destruct (H t_b Pb) as (out & raw & Ho & Hr & _ & Hc & _).
    vm_compute in Ho. inversion Ho; subst out. vm_compute in Hr. inversion Hr; subst raw. exact Hc.
Qed.

(* ---- a tree with MIXED line endings:
       d/a.txtpp (LF)   = "// TXTPP#temp t\n// h1\n// h2\nTXTPP#include t\nx\ny\n"
       d/b.txtpp (CRLF) = "// TXTPP#temp u\r\n// l1\r\n// l2\r\np\r\n// TXTPP#run c\r\nTXTPP#include a\r\nz\r\n"
     b.txtpp writes a two-line temp file, runs a command whose output "o1\no2\n" uses LF, and includes the output of
     a.txtpp, which uses LF: everything is re-joined with CRLF in d/b and d/u; d/a and d/t use LF only. ---- *)
Definition m_araw : str := [47; 47; 32; 84; 88; 84; 80; 80; 35; 116; 101; 109; 112; 32; 116; 10; 47; 47; 32; 104; 49; 10; 47; 47; 32; 104; 50; 10; 84; 88; 84; 80; 80; 35; 105; 110; 99; 108; 117; 100; 101; 32; 116; 10; 120; 10; 121; 10].
Definition m_braw : str := [47; 47; 32; 84; 88; 84; 80; 80; 35; 116; 101; 109; 112; 32; 117; 13; 10; 47; 47; 32; 108; 49; 13; 10; 47; 47; 32; 108; 50; 13; 10; 112; 13; 10; 47; 47; 32; 84; 88; 84; 80; 80; 35; 114; 117; 110; 32; 99; 13; 10; 84; 88; 84; 80; 80; 35; 105; 110; 99; 108; 117; 100; 101; 32; 97; 13; 10; 122; 13; 10].
Definition m_u : path := [[100]; [117]].                                 (* d/u *)
Definition m_fs : fs := [([[100]], Dir); (t_a, File m_araw); (t_b, File m_braw)].
Definition m_w : world := mkW m_fs [].
Definition m_cfg : config := mkCfg [] [[100]] true 1 Build true.
Definition m_orc : oracle := fun _ _ _ => Some [111; 49; 10; 111; 50; 10].     (* every command prints "o1\no2\n" *)
Definition m_aout : str := [104; 49; 10; 104; 50; 120; 10; 121; 10].   (* "h1\nh2x\ny\n" *)
Definition m_bout : str := [112; 13; 10; 111; 49; 13; 10; 111; 50; 13; 10; 104; 49; 13; 10; 104; 50; 120; 13; 10; 121; 13; 10; 122; 13; 10].   (* "p\r\no1\r\no2\r\nh1\r\nh2x\r\ny\r\nz\r\n" *)

Lemma m_raw_ok : raw_ok m_w.
Proof. unfold raw_ok. cbn. repeat constructor; cbn; intuition discriminate. Qed.
Lemma m_world_ok : world_ok m_w.
Proof. apply world_okb_sound. vm_compute. reflexivity. Qed.
Lemma m_orc_ok : forall c d f o, m_orc c d f = Some o -> cr_only_before_lf o.
Proof. intros c d f o H. inversion H; subst o. apply cr_okb_sound. vm_compute. reflexivity. Qed.
Lemma m_sources f raw : read_file (w_fs m_w) f = Some raw -> f = t_a \/ f = t_b.
Proof.
  unfold read_file, m_w, m_fs. cbn [w_fs]. intros Er.
  destruct f as [|x f']; [cbn in Er; discriminate|]. cbn [fs_get] in Er.
  destruct (path_eqb [[100]] (x :: f')) eqn:E1; [discriminate|].
  destruct (path_eqb t_a (x :: f')) eqn:E2; [left; apply SinkFacts.path_eqb_eq in E2; symmetry; exact E2|].
  destruct (path_eqb t_b (x :: f')) eqn:E3; [right; apply SinkFacts.path_eqb_eq in E3; symmetry; exact E3|discriminate].
Qed.
Lemma m_detect : detect_le m_araw = [LFb] /\ detect_le m_braw = [CRb; LFb].
Proof. split; vm_compute; reflexivity. Qed.

Ltac in_cases H := repeat (destruct H as [<-|H]); [..|destruct H].

Lemma m_sched_ok : sched_ok_temps m_w.
Proof.
  assert (Hsrc : forall f out, is_source m_w f out -> (f = t_a /\ out = t_aout) \/ (f = t_b /\ out = t_bout)).
  { intros f out [Ho [raw Er]]. destruct (m_sources f raw Er) as [-> | ->]; vm_compute in Ho; inversion Ho; auto. }
  intros f out Hs. destruct (Hsrc f out Hs) as [[-> ->]|[-> ->]].
  - split; [repeat constructor|]. split; [vm_compute; reflexivity|]. split; [|split; [|split]].
    + intros p Hp. vm_compute in Hp. in_cases Hp; vm_compute; reflexivity.
    + intros c Hc. vm_compute in Hc. in_cases Hc; vm_compute; reflexivity.
    + solve_ro.
    + intros g outg Hg Hne. destruct (Hsrc g outg Hg) as [[-> ->]|[-> ->]]; [congruence|].
      split; [|split]; intros p Hp; vm_compute in Hp; in_cases Hp; vm_compute; intuition discriminate.
  - split; [repeat constructor|]. split; [vm_compute; reflexivity|]. split; [|split; [|split]].
    + intros p Hp. vm_compute in Hp. in_cases Hp; vm_compute; reflexivity.
    + intros c Hc. vm_compute in Hc. in_cases Hc; vm_compute; reflexivity.
    + solve_ro.
    + intros g outg Hg Hne. destruct (Hsrc g outg Hg) as [[-> ->]|[-> ->]]; [|congruence].
      split; [|split]; intros p Hp; vm_compute in Hp; in_cases Hp; vm_compute; intuition discriminate.
Qed.

(* Z1 / Z2 on single passes of the mixed tree: the first pass of b.txtpp (CRLF; it writes its temp file d/u, "p", the output of the
   command re-joined with CRLF, and stops at the dependency), and the only pass of a.txtpp (LF; it writes d/t and includes it) *)
Example build_pass_le_nonvacuous :
  (exists ds w', pp_run m_orc Build [] t_b true true m_w = PpHasDeps ds w' /\
     ds = [t_a] /\
     read_file (w_fs w') t_bout = Some [112; 13; 10; 111; 49; 13; 10; 111; 50; 13; 10] /\ read_file (w_fs w') m_u = Some [108; 49; 13; 10; 108; 50] /\
     In (EWrite m_u) (new_events m_w w') /\
     (exists c, read_file (w_fs w') t_bout = Some c /\ le_uniform [CRb; LFb] c) /\
     (forall c, read_file (w_fs w') m_u = Some c -> le_uniform [CRb; LFb] c)) /\
  (exists w', pp_run m_orc Build [] t_a true true m_w = PpOk w' /\
     read_file (w_fs w') t_aout = Some m_aout /\ read_file (w_fs w') t_t = Some [104; 49; 10; 104; 50] /\
     (exists c, read_file (w_fs w') t_aout = Some c /\ le_uniform [LFb] c) /\
     (forall c, read_file (w_fs w') t_t = Some c -> le_uniform [LFb] c)).
Proof.
  destruct m_detect as [Da Db]. split.
  - destruct (pp_run m_orc Build [] t_b true true m_w) as [w'|ds w'|k w'|] eqn:E; try (vm_compute in E; discriminate).
    exists ds, w'. split; [reflexivity|].
    assert (Hn : all_normal (parent t_b)) by (repeat constructor).
    pose proof (build_output_le_uniform m_orc [] t_b true true m_w m_braw t_bout w' m_orc_ok m_world_ok
                  eq_refl eq_refl Hn (or_intror (ex_intro _ ds E))) as Z1.
    destruct (temp_files_le_uniform_build m_orc [] t_b true true m_w m_braw t_bout w' m_orc_ok m_world_ok
                  eq_refl eq_refl Hn (or_intror (ex_intro _ ds E))) as [_ Z2].
    rewrite Db in Z1, Z2.
    assert (Ev : In (EWrite m_u) (new_events m_w w')) by (vm_compute in E; inversion E; subst; vm_compute; tauto).
    split; [vm_compute in E; inversion E; reflexivity|].
    split; [vm_compute in E; inversion E; subst; reflexivity|].
    split; [vm_compute in E; inversion E; subst; reflexivity|].
    split; [exact Ev|]. split; [exact Z1|].
    intros c Hc. apply (Z2 m_u c Hc). left. exact Ev.
  - destruct (pp_run m_orc Build [] t_a true true m_w) as [w'|ds w'|k w'|] eqn:E; try (vm_compute in E; discriminate).
    exists w'. split; [reflexivity|].
    assert (Hn : all_normal (parent t_a)) by (repeat constructor).
    pose proof (build_output_le_uniform m_orc [] t_a true true m_w m_araw t_aout w' m_orc_ok m_world_ok
                  eq_refl eq_refl Hn (or_introl E)) as Z1.
    destruct (temp_files_le_uniform_build m_orc [] t_a true true m_w m_araw t_aout w' m_orc_ok m_world_ok
                  eq_refl eq_refl Hn (or_introl E)) as [_ Z2].
    rewrite Da in Z1, Z2.
    split; [vm_compute in E; inversion E; subst; reflexivity|].
    split; [vm_compute in E; inversion E; subst; reflexivity|].
    split; [exact Z1|].
    intros c Hc. apply (Z2 t_t c Hc). right. vm_compute. discriminate.
Qed.

(* Z3 on the mixed tree, two schedules (a.txtpp first / b.txtpp first): the run succeeds, processes both sources,
   and d/a is LF-uniform while d/b — which includes d/a and the LF output of a command — is CRLF-uniform; the concrete
   contents are the ones displayed. *)
Example run_outputs_le_uniform_nonvacuous_mixed :
  forall sched, sched = [] \/ sched = [0; 1; 0; 0]%nat ->
  let x := txtpp_run m_orc m_cfg 9 sched m_w in
  verdict_of x = VOk /\ processed x t_a /\ processed x t_b /\
  read_file (w_fs (world_of x)) t_aout = Some m_aout /\
  read_file (w_fs (world_of x)) t_bout = Some m_bout /\
  read_file (w_fs (world_of x)) m_u = Some [108; 49; 13; 10; 108; 50] /\
  (exists c, read_file (w_fs (world_of x)) t_aout = Some c /\ le_uniform [LFb] c) /\
  (exists c, read_file (w_fs (world_of x)) t_bout = Some c /\ le_uniform [CRb; LFb] c) /\
  (forall c, read_file (w_fs (world_of x)) m_u = Some c -> le_uniform [CRb; LFb] c) /\
  (forall c, read_file (w_fs (world_of x)) t_t = Some c -> le_uniform [LFb] c).
Proof.
  intros sched Hs. cbv zeta. destruct m_detect as [Da Db].
  assert (E : verdict_of (txtpp_run m_orc m_cfg 9 sched m_w) = VOk) by (destruct Hs as [-> | ->]; vm_compute; reflexivity).
  destruct (run_outputs_le_uniform m_orc m_cfg 9 sched m_w eq_refl m_raw_ok m_sched_ok m_world_ok m_orc_ok E) as [_ H].
  assert (Pa : processed (txtpp_run m_orc m_cfg 9 sched m_w) t_a).
  { exists true, (RPp t_a (Some POk)). destruct Hs as [-> | ->]; vm_compute; tauto. }
  assert (Pb : processed (txtpp_run m_orc m_cfg 9 sched m_w) t_b).
  { exists false, (RPp t_b (Some POk)). destruct Hs as [-> | ->]; vm_compute; tauto. }
  split; [exact E|]. split; [exact Pa|]. split; [exact Pb|].
  split; [destruct Hs as [-> | ->]; vm_compute; reflexivity|].
  split; [destruct Hs as [-> | ->]; vm_compute; reflexivity|].
  split; [destruct Hs as [-> | ->]; vm_compute; reflexivity|].
  destruct (H t_a Pa) as (outa & rawa & Hoa & Hra & _ & Hca & Hfa).
  vm_compute in Hoa. inversion Hoa; subst outa. vm_compute in Hra. inversion Hra; subst rawa.
  destruct (H t_b Pb) as (outb & rawb & Hob & Hrb & _ & Hcb & Hfb).
  vm_compute in Hob. inversion Hob; subst outb. vm_compute in Hrb. inversion Hrb; subst rawb.
  fold m_araw in Hca, Hfa. fold m_braw in Hcb, Hfb. rewrite Da in Hca, Hfa. rewrite Db in Hcb, Hfb.
  split; [exact Hca|]. split; [exact Hcb|]. split.
  - intros c Hc. destruct (Hfb m_u c) as [Hl|[Hs0 _]]; [vm_compute; tauto|exact Hc|exact Hl|vm_compute in Hs0; discriminate].
  - intros c Hc. destruct (Hfa t_t c) as [Hl|[Hs0 _]]; [vm_compute; tauto|exact Hc|exact Hl|vm_compute in Hs0; discriminate].
Qed.

(* ---- the domain condition is needed.  d/c.txtpp = "TXTPP#include r\nz\n" (LF) includes the plain file d/r = "a\rb\n",
   which holds a lone CR (not before LF).  `lines` strips a CR only at the end of a line, so the CR survives:
   the output d/c is "a\rb\nz", an LF file that contains a CR.  (Same thing for a lone CR inside a text line of the
   source, or in the output of a command.)  This is the domain condition D1 of LeFacts, not a defect of the run. ---- *)
Definition k_c : path := [[100]; [99; 46; 116; 120; 116; 112; 112]].     (* d/c.txtpp *)
Definition k_cout : path := [[100]; [99]].                               (* d/c *)
Definition k_r : path := [[100]; [114]].                                 (* d/r *)
Definition k_craw : str := [84; 88; 84; 80; 80; 35; 105; 110; 99; 108; 117; 100; 101; 32; 114; 10; 122; 10].   (* "TXTPP#include r\nz\n" *)
Definition k_rraw : str := [97; 13; 98; 10].   (* "a\rb\n": a lone CR *)
Definition k_w : world := mkW [([[100]], Dir); (k_c, File k_craw); (k_r, File k_rraw)] [].
Example stray_cr_reaches_output :
  let x := txtpp_run cx_orc t_cfg 9 [] k_w in
  verdict_of x = VOk /\ processed x k_c /\ detect_le k_craw = [LFb] /\
  read_file (w_fs (world_of x)) k_cout = Some [97; 13; 98; 10; 122] /\       (* "a\rb\nz" *)
  ~ le_uniform [LFb] [97; 13; 98; 10; 122] /\
  ~ world_ok k_w.
Proof.
  cbv zeta. split; [vm_compute; reflexivity|]. split; [exists true, (RPp k_c (Some POk)); vm_compute; tauto|].
  split; [vm_compute; reflexivity|]. split; [vm_compute; reflexivity|]. split.
  - unfold le_uniform. change (str_eqb [LFb] [LFb]) with true. cbv iota. intros H. apply H. vm_compute. tauto.
  - intros H. destruct (H k_r k_rraw eq_refl [97] [98; 10] eq_refl) as [r' Hr]. discriminate.
Qed.
