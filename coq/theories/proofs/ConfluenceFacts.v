(* ConfluenceFacts.v — passes over different files with disjoint footprints commute (C02: data-race freedom of the
   coordinator's concurrency at the level of the model; C08: independence of leftovers), built on
   FrameFacts.pp_run_frame_agree (what a pass reads) and EventFacts.pp_run_events_general / pp_run_frame (what it writes).
   TASK (done): every admitted statement of stage 1 and 2 is proved; for the parts marked DESIGN (stage 3) see the end of the file.
   Do not change the statements of stage 1 and 2; add helper lemmas freely. *)
Require Import Txtpp.Str Txtpp.Consts Txtpp.Grammar Txtpp.Tags Txtpp.Path Txtpp.Fs Txtpp.Sink Txtpp.Pp Txtpp.Spec.
Require Import Txtpp.proofs.StrFacts Txtpp.proofs.SinkFacts Txtpp.proofs.PathFacts Txtpp.proofs.PpFacts Txtpp.proofs.EventFacts Txtpp.proofs.FrameFacts.
From Coq Require Import Lia.

Definition out_world (o : pp_outcome) (dflt : world) : world :=
  match o with PpOk w => w | PpHasDeps _ w => w | PpErr _ w => w | PpPanic => dflt end.
(* the part of an outcome the coordinator looks at *)
Inductive otag := TOk | TDeps (d : list path) | TErr (k : errkind) | TPanic.
Definition tag_of (o : pp_outcome) : otag :=
  match o with PpOk _ => TOk | PpHasDeps d _ => TDeps d | PpErr k _ => TErr k | PpPanic => TPanic end.

(* the paths a pass over src may write (EventFacts: every event is on one of them), in the world w *)
Definition writes_of (md : mode) (w : world) (src : path) : list path :=
  match remove_txtpp src with
  | Some out => lex_normalize out :: allowed_paths src out (items_of md w src)
  | None => []
  end.
(* the paths a pass over src looks at, besides its own source and output (FrameFacts.probes) *)
Definition reads_of (first : bool) (md : mode) (w : world) (src : path) : list path :=
  src :: probes first md src (items_of md w src).

(* ---- a generic preservation principle: a reflexive-transitive relation between worlds that holds for the four
   world primitives holds between the initial world and the world of any outcome of a pass ---- *)
Section Pres.
Variable R : world -> world -> Prop.
Hypothesis R_refl : forall w, R w w.
Hypothesis R_trans : forall a b c, R a b -> R b c -> R a c.
Hypothesis R_write : forall w p c w', w_write w p c = Some w' -> R w w'.
Hypothesis R_append : forall w q c w', w_append w q c = Some w' -> R w w'.
Hypothesis R_remove : forall w q w', w_remove_file w q = Some w' -> R w w'.
Hypothesis R_emit : forall w e, R w (w_emit w e).

Lemma sink_new_R md w out k w' : sink_new md w out = inl (k, w') -> R w w'.
Proof.
  destruct md; simpl.
  - destruct (w_write w out []) eqn:E; intros H; inversion H; subst. eapply R_write; eauto.
  - intros H; inversion H; subst; apply R_refl.
  - destruct (exists_ (w_fs w) out); [destruct (w_remove_file w out) eqn:E|]; intros H; inversion H; subst; eauto.
  - destruct (fs_get (w_fs w) out) as [[c|]|]; intros H; inversion H; subst; apply R_refl.
Qed.

Lemma sink_write_R k w c k' w' : sink_write k w c = inl (k', w') -> R w w'.
Proof.
  destruct k; simpl.
  - destruct (w_append w p c) eqn:E; intros H; inversion H; subst. eauto.
  - intros H; inversion H; subst; apply R_refl.
  - intros H; inversion H; subst; apply R_refl.
  - destruct (Nat.ltb _ _); [discriminate|]. destruct (str_eqb _ _); intros H; inversion H; subst; apply R_refl.
Qed.

Lemma sink_done_R k w w' : sink_done k w = inl w' -> R w w'.
Proof.
  destruct k; simpl.
  - intros H; inversion H; subst; apply R_refl.
  - destruct (fs_get (w_fs w) p) as [[c|]|].
    + destruct (str_eqb c buf); [intros H; inversion H; subst; apply R_refl|].
      destruct (w_write w p buf) eqn:E; intros H; inversion H; subst; eauto.
    + discriminate.
    + destruct (w_write w p buf) eqn:E; intros H; inversion H; subst; eauto.
  - intros H; inversion H; subst; apply R_refl.
  - destruct rest; intros H; inversion H; subst; apply R_refl.
Qed.

Lemma write_temp_R w lp c w' : write_temp w lp c = inl w' -> R w w'.
Proof.
  unfold write_temp. destruct (os_resolve (w_fs w) lp) as [q|].
  - destruct (fs_get (w_fs w) q) as [[c0|]|]; try discriminate.
    destruct (str_eqb c0 c); [intros H; inversion H; subst; apply R_refl|].
    destruct (w_write w q c) eqn:E; intros H; inversion H; subst; eauto.
  - destruct (w_write w lp []) as [w1|] eqn:E1; [|discriminate].
    destruct c as [|b c]; [intros H; inversion H; subst; eauto|].
    destruct (w_write w1 lp (b :: c)) eqn:E2; intros H; inversion H; subst. eauto.
Qed.

Lemma remove_temp_R w lp w' : remove_temp w lp = inl w' -> R w w'.
Proof.
  unfold remove_temp. destruct (os_resolve (w_fs w) lp) as [q|].
  - destruct (w_remove_file w q) eqn:E; intros H; inversion H; subst; eauto.
  - intros H; inversion H; subst; apply R_refl.
Qed.

Lemma exec_temp_R src le args cl w w' : exec_temp src le args cl w = inl w' -> R w w'.
Proof.
  unfold exec_temp. destruct args as [|a r]; [discriminate|].
  destruct (is_txtpp_file (lex_components a)); [discriminate|].
  destruct cl; [apply remove_temp_R|apply write_temp_R].
Qed.

Definition xres_R (w : world) (r : xres) : Prop :=
  match r with XOut _ s' => R w (wld s') | XErr _ w' => R w w' end.
Definition sres_R (w : world) (r : step_res) : Prop :=
  match r with StOk s' => R w (wld s') | StErr _ w' => R w w' | StPanic => True end.

Lemma exec_directive_R orc md src base le d s : xres_R (wld s) (exec_directive orc md src base le d s).
Proof.
  unfold exec_directive.
  assert (Hclean : xres_R (wld s) match d_ty d with
    | DTemp => match exec_temp src le (d_args d) true (wld s) with
               | inl w' => XOut None (set_wld s w') | inr _ => XOut None s end
    | _ => XOut None s end).
  { destruct (d_ty d); simpl; try apply R_refl.
    destruct (exec_temp src le (d_args d) true (wld s)) eqn:E; simpl; [|apply R_refl].
    eapply exec_temp_R; eauto. }
  assert (Hother : xres_R (wld s)
    match collect_deps src d s with
    | inr k => XErr k (wld s)
    | inl (inl s') => XOut None s'
    | inl (inr s') =>
      match d_ty d with
      | DEmpty | DAfter => XOut None s'
      | DRun =>
        let command := join [SPb] (d_args d) in
        let w1 := w_emit (wld s') (ERun command (work_dir src) (input_display src base)) in
        match orc command (work_dir src) (input_display src base) with
        | Some out => XOut (Some out) (set_wld s' w1)
        | None => XErr KDirective w1
        end
      | DInclude =>
        let arg := hd [] (d_args d) in
        match os_resolve (w_fs (wld s')) (lex_join (work_dir src) arg) with
        | None => XErr KDirective (wld s')
        | Some q =>
          match read_file (w_fs (wld s')) q with
          | Some c => if utf8_valid c then XOut (Some c) s' else XErr KDirective (wld s')
          | None => XErr KDirective (wld s')
          end
        end
      | DTemp =>
        match exec_temp src le (d_args d) false (wld s') with
        | inl w' => XOut None (set_wld s' w')
        | inr k => XErr k (wld s')
        end
      | DTag =>
        match create (tg s') (hd [] (d_args d)) with
        | Some t' => XOut None (set_tg s' t')
        | None => XErr KDirective (wld s')
        end
      | DWrite => XOut (Some (join [LFb] (d_args d))) s'
      end
    end).
  { destruct (collect_deps src d s) as [[s'|s']|k] eqn:E; [| |apply R_refl];
      apply collect_deps_inv in E; simpl in E; destruct E as (Ew & _ & _).
    - simpl. rewrite Ew. apply R_refl.
    - rewrite <- Ew. destruct (d_ty d); simpl; try apply R_refl; cbv zeta;
      first
      [ match goal with |- context [orc ?a ?b ?c] => destruct (orc a b c) end; simpl; apply R_emit
      | match goal with |- context [os_resolve ?a ?b] => destruct (os_resolve a b) as [q|] end; simpl; [|apply R_refl];
        destruct (read_file (w_fs (wld s')) q) as [c|]; simpl; [|apply R_refl]; destruct (utf8_valid c); simpl; apply R_refl
      | destruct (exec_temp src le (d_args d) false (wld s')) eqn:E; simpl; [|apply R_refl];
        eapply exec_temp_R; eauto
      | match goal with |- context [create ?a ?b] => destruct (create a b) end; simpl; apply R_refl ]. }
  destruct md; assumption.
Qed.

Lemma emit_R le s o ht : sres_R (wld s) (emit le s o ht).
Proof.
  unfold emit. destruct (is_execute (pmode s)); [|apply R_refl].
  destruct o as [x|]; [|apply R_refl].
  assert (H1 : match (if flag s then sink_write (snk s) (wld s) le else inl (snk s, wld s)) with
               | inl (k1, w1) => R (wld s) w1 | inr _ => True end).
  { destruct (flag s); [|apply R_refl]. destruct (sink_write (snk s) (wld s) le) as [[k1 w1]|] eqn:E; [|exact I].
    eapply sink_write_R; eauto. }
  destruct (if flag s then sink_write (snk s) (wld s) le else inl (snk s, wld s)) as [[k1 w1]|]; [|apply R_refl].
  destruct (sink_write k1 w1 x) as [[k2 w2]|] eqn:E; simpl; [|exact H1].
  eapply R_trans; [exact H1|]. eapply sink_write_R; eauto.
Qed.

Lemma sres_R_trans w w' r : R w w' -> sres_R w' r -> sres_R w r.
Proof. intros H. destruct r; simpl; eauto. Qed.

Lemma run_directive_R orc md src base le d ht s : sres_R (wld s) (run_directive orc md src base le d ht s).
Proof.
  unfold run_directive. pose proof (exec_directive_R orc md src base le d s) as H.
  destruct (exec_directive orc md src base le d s) as [[raw|] s'|k w']; simpl in H; [| |exact H].
  - destruct (try_store (tg s') raw) as [t'|].
    + eapply sres_R_trans; [exact H|]. apply (emit_R le (set_tg s' t')).
    + eapply sres_R_trans; [exact H|]. apply emit_R.
  - eapply sres_R_trans; [exact H|]. apply emit_R.
Qed.

Lemma as_text_R le s l : sres_R (wld s) (as_text_def le s l).
Proof.
  unfold as_text_def. destruct (is_execute (pmode s)); [|apply emit_R].
  destruct (inject (tg s) l le) as [[l' t']|]; [|exact I]. apply (emit_R le (set_tg s t')).
Qed.

Lemma step_fresh_R md le l s : sres_R (wld s) (step_fresh md le l s).
Proof.
  rewrite step_fresh_eq. destruct (detect_from l) as [d|]; [|apply as_text_R].
  destruct (needs_prefix_err d); [|apply R_refl].
  destruct md; try apply R_refl. apply as_text_R.
Qed.

Lemma step_line_R orc md src base le l s : sres_R (wld s) (step_line orc md src base le l s).
Proof.
  unfold step_line. destruct (cur s) as [d|]; [|apply step_fresh_R].
  destruct (add_line d l); try apply R_refl; try exact I.
  pose proof (run_directive_R orc md src base le d true (set_cur s None)) as H.
  destruct (run_directive orc md src base le d true (set_cur s None)) as [s'|k w'|]; simpl in H; [|exact H|exact I].
  eapply sres_R_trans; [exact H|]. apply step_fresh_R.
Qed.

Lemma run_lines_R orc md src base le ls : forall s, sres_R (wld s) (run_lines orc md src base le ls s).
Proof.
  induction ls as [|l r IH]; intros s; simpl; [apply R_refl|].
  pose proof (step_line_R orc md src base le l s) as H.
  destruct (step_line orc md src base le l s) as [s'|k w'|]; simpl in H; [|exact H|exact I].
  eapply sres_R_trans; [exact H|]. apply IH.
Qed.

Definition ores_R (w : world) (o : pp_outcome) : Prop :=
  match o with PpOk w' => R w w' | PpHasDeps _ w' => R w w' | PpErr _ w' => R w w' | PpPanic => True end.

Lemma finish_R orc md src base le tn s : ores_R (wld s) (finish orc md src base le tn s).
Proof.
  unfold finish.
  assert (H : sres_R (wld s) match cur s with
                | Some d => run_directive orc md src base le d false (set_cur s None)
                | None => StOk s end).
  { destruct (cur s) as [d|]; [|apply R_refl]. apply (run_directive_R orc md src base le d false (set_cur s None)). }
  destruct (match cur s with
            | Some d => run_directive orc md src base le d false (set_cur s None)
            | None => StOk s end) as [s1|k w'|]; simpl in H; [|exact H|exact I].
  destruct (pmode s1); try exact H.
  - destruct (has_tags (tg s1) && negb (mode_eqb md Clean))%bool; [exact H|].
    assert (H1 : match (if (flag s1 && tn)%bool then sink_write (snk s1) (wld s1) le else inl (snk s1, wld s1)) with
               | inl (k1, w1) => R (wld s) w1 | inr _ => True end).
    { destruct (flag s1 && tn)%bool; [|exact H].
      destruct (sink_write (snk s1) (wld s1) le) as [[k1 w1]|] eqn:E; [|exact I].
      eapply R_trans; [exact H|]. eapply sink_write_R; eauto. }
    destruct (if (flag s1 && tn)%bool then sink_write (snk s1) (wld s1) le else inl (snk s1, wld s1)) as [[k1 w1]|]; [|exact H].
    destruct (sink_done k1 w1) eqn:E; simpl; [|exact H1]. eapply R_trans; [exact H1|]. eapply sink_done_R; eauto.
  - destruct (has_tags (tg s1) && negb (mode_eqb md Clean))%bool; [exact H|].
    assert (H1 : match (if (flag s1 && tn)%bool then sink_write (snk s1) (wld s1) le else inl (snk s1, wld s1)) with
               | inl (k1, w1) => R (wld s) w1 | inr _ => True end).
    { destruct (flag s1 && tn)%bool; [|exact H].
      destruct (sink_write (snk s1) (wld s1) le) as [[k1 w1]|] eqn:E; [|exact I].
      eapply R_trans; [exact H|]. eapply sink_write_R; eauto. }
    destruct (if (flag s1 && tn)%bool then sink_write (snk s1) (wld s1) le else inl (snk s1, wld s1)) as [[k1 w1]|]; [|exact H].
    destruct (sink_done k1 w1) eqn:E; simpl; [|exact H1]. eapply R_trans; [exact H1|]. eapply sink_done_R; eauto.
Qed.

Lemma ores_R_trans w w' o : R w w' -> ores_R w' o -> ores_R w o.
Proof. intros H. destruct o; simpl; eauto. Qed.

Theorem pp_run_R orc md base src first tn w : ores_R w (pp_run orc md base src first tn w).
Proof.
  rewrite pp_run_unfold.
  destruct (read_file (w_fs w) src) as [raw|]; [|apply R_refl].
  destruct (remove_txtpp src) as [out|]; [|apply R_refl].
  destruct (is_txtpp_file out); [apply R_refl|].
  destruct (sink_new md w out) as [[k0 w0]|k] eqn:EN; [|apply R_refl].
  apply sink_new_R in EN. eapply ores_R_trans; [exact EN|].
  unfold pp_rest. destruct (take_valid (lines raw)) as [ls bad].
  set (s0 := mkP None false (if first then PFirst else PExec) tags_new k0 w0).
  pose proof (run_lines_R orc md src base (detect_le raw) ls s0) as H.
  destruct (run_lines orc md src base (detect_le raw) ls s0) as [s1|k w'|]; simpl in H; [|exact H|exact I].
  destruct bad; [exact H|].
  eapply ores_R_trans; [exact H|]. apply finish_R.
Qed.
End Pres.

(* instance: a pass neither creates nor removes a directory *)
Definition same_dirs (w w' : world) : Prop := forall p, is_dir (w_fs w') p = is_dir (w_fs w) p.

Lemma is_dir_nil f : is_dir f [] = true.
Proof. unfold is_dir. rewrite fs_get_nil. reflexivity. Qed.

Lemma same_dirs_put f l l' q c : is_dir f q = false -> same_dirs (mkW f l) (mkW (fs_put f q (File c)) l').
Proof.
  intros Hd p. simpl. assert (Hq : q <> []) by (intros ->; rewrite is_dir_nil in Hd; discriminate).
  rewrite is_dir_put_file by exact Hq. destruct (path_eqb q p) eqn:E; [|reflexivity].
  apply path_eqb_true in E. subst p. symmetry. exact Hd.
Qed.
Lemma same_dirs_del f l l' q : is_dir f q = false -> same_dirs (mkW f l) (mkW (fs_del f q) l').
Proof.
  intros Hd p. simpl. assert (Hq : q <> []) by (intros ->; rewrite is_dir_nil in Hd; discriminate).
  rewrite is_dir_del by exact Hq. destruct (path_eqb q p) eqn:E; [|reflexivity].
  apply path_eqb_true in E. subst p. symmetry. exact Hd.
Qed.

Theorem pp_run_same_dirs orc md base src first tn w :
  same_dirs w (out_world (pp_run orc md base src first tn w) w).
Proof.
  assert (H : ores_R same_dirs w (pp_run orc md base src first tn w)).
  { apply pp_run_R.
    - intros w0 p. reflexivity.
    - intros a b c H1 H2 p. rewrite H2, H1. reflexivity.
    - intros w0 p c w' H. unfold w_write in H.
      destruct (write_target (w_fs w0) p) as [q|] eqn:E; [|discriminate]. inversion H; subst w'.
      destruct w0 as [f l]. apply same_dirs_put. eapply write_target_not_dir; eauto.
    - intros w0 q c w' H. unfold w_append in H.
      destruct (fs_get (w_fs w0) q) as [[old|]|] eqn:E; try discriminate. inversion H; subst w'.
      destruct w0 as [f l]. apply same_dirs_put. unfold is_dir. simpl in *. rewrite E. reflexivity.
    - intros w0 q w' H. unfold w_remove_file in H.
      destruct (fs_get (w_fs w0) q) as [[old|]|] eqn:E; try discriminate. inversion H; subst w'.
      destruct w0 as [f l]. apply same_dirs_del. unfold is_dir. simpl in *. rewrite E. reflexivity.
    - intros w0 e p. reflexivity. }
  destruct (pp_run orc md base src first tn w); simpl in *; try exact H. intros p. reflexivity.
Qed.

Lemma not_dir_is_dir f p : fs_get f p <> Some Dir <-> is_dir f p = false.
Proof. unfold is_dir. destruct (fs_get f p) as [[c|]|]; split; intros H; congruence. Qed.

(* a path that holds a file or nothing still holds a file or nothing after a pass *)
Corollary pp_run_no_new_dir orc md base src first tn w p :
  fs_get (w_fs w) p <> Some Dir ->
  fs_get (w_fs (out_world (pp_run orc md base src first tn w) w)) p <> Some Dir.
Proof.
  intros H. apply not_dir_is_dir. rewrite (pp_run_same_dirs orc md base src first tn w p).
  apply not_dir_is_dir. exact H.
Qed.

(* ---- stage 1: a pass is unaffected by changes outside what it reads, and leaves alone what it does not write ---- *)
(* restatement of the frame theorem for "the world was changed by somebody else on the paths xs" *)
Theorem pass_ignores_foreign_changes orc md base src first tn xs w1 w2 :
  (forall p, ~ In p xs -> fs_get (w_fs w1) p = fs_get (w_fs w2) p) ->
  (forall p, In p xs -> fs_get (w_fs w1) p <> Some Dir /\ fs_get (w_fs w2) p <> Some Dir) ->
  (forall p, In p xs -> ~ In p (reads_of first md w1 src) /\ ~ In p (writes_of md w1 src)) ->
  tag_of (pp_run orc md base src first tn w1) = tag_of (pp_run orc md base src first tn w2) /\
  (forall p, ~ In p xs ->
     fs_get (w_fs (out_world (pp_run orc md base src first tn w1) w1)) p =
     fs_get (w_fs (out_world (pp_run orc md base src first tn w2) w2)) p).
Proof.
  intros HA HD HX.
  assert (Hsrc : ~ In src xs).
  { intros Hin. destruct (HX src Hin) as [Hr _]. apply Hr. left. reflexivity. }
  pose proof (pp_run_frame_agree_list orc md base src first tn xs w1 w2 HA HD Hsrc) as H.
  assert (Hout : forall out, remove_txtpp src = Some out -> ~ In out xs /\ ~ In (lex_normalize out) xs).
  { intros out Ho. split; intros Hin; destruct (HX _ Hin) as [_ Hw]; apply Hw; unfold writes_of; rewrite Ho.
    - right. left. reflexivity.
    - left. reflexivity. }
  assert (Hpr : forall p, In p (probes first md src (items_of md w1 src)) -> ~ In p xs).
  { intros p Hp Hin. destruct (HX _ Hin) as [Hr _]. apply Hr. right. exact Hp. }
  specialize (H Hout Hpr).
  destruct (pp_run orc md base src first tn w1) as [a|d1 a|k1 a|],
           (pp_run orc md base src first tn w2) as [b|d2 b|k2 b|]; simpl in H; try contradiction; simpl.
  - split; [reflexivity|]. intros p Hp. apply (proj1 H). apply in_paths_false. exact Hp.
  - destruct H as [-> H]. split; [reflexivity|]. intros p Hp. apply (proj1 H). apply in_paths_false. exact Hp.
  - destruct H as [-> H]. split; [reflexivity|]. intros p Hp. apply (proj1 H). apply in_paths_false. exact Hp.
  - split; [reflexivity|]. exact HA.
Qed.

(* the same statement without the (unused) canonicity hypotheses *)
Lemma pass_footprint orc md base src first tn w p :
  ~ In p (writes_of md w src) ->
  fs_get (w_fs (out_world (pp_run orc md base src first tn w) w)) p = fs_get (w_fs w) p.
Proof.
  intros Hp. unfold writes_of in Hp.
  destruct (remove_txtpp src) as [out|] eqn:Ho.
  - assert (G : forall w', (pp_run orc md base src first tn w = PpOk w' \/
                            (exists d, pp_run orc md base src first tn w = PpHasDeps d w') \/
                            (exists k, pp_run orc md base src first tn w = PpErr k w')) ->
                 fs_get (w_fs w') p = fs_get (w_fs w) p).
    { intros w' Hres.
      destruct (pp_run_events_general orc md src base first tn w out Ho w' Hres) as (evs & Hext & Hall).
      apply (pp_run_frame orc md base src first tn w w' p Hres).
      unfold extends in Hext. rewrite Hext, skipn_app_exact. intros e He Hev.
      rewrite Forall_forall in Hall. specialize (Hall e He). unfold ev_allowed in Hall. rewrite Hev in Hall.
      apply Hp. exact Hall. }
    destruct (pp_run orc md base src first tn w) as [a|d a|k a|] eqn:E; simpl.
    + apply G. left. reflexivity.
    + apply G. right. left. exists d. reflexivity.
    + apply G. right. right. exists k. reflexivity.
    + reflexivity.
  - unfold pp_run. rewrite Ho. destruct (read_file (w_fs w) src); reflexivity.
Qed.


(* what a pass does not write it leaves alone (whatever the outcome) *)
Theorem pass_writes_only_its_footprint orc md base src first tn w p :
  all_normal src -> no_dotdot_prefix src ->
  ~ In p (writes_of md w src) ->
  fs_get (w_fs (out_world (pp_run orc md base src first tn w) w)) p = fs_get (w_fs w) p.
Proof. intros _ _. apply pass_footprint. Qed.

(* ---- stage 2: two passes with disjoint footprints commute ---- *)
(* the footprints depend on the world through the node of the source only *)
Lemma items_of_same md w w' src :
  fs_get (w_fs w') src = fs_get (w_fs w) src -> items_of md w' src = items_of md w src.
Proof. intros H. unfold items_of, read_file. rewrite H. reflexivity. Qed.
Lemma writes_of_same md w w' src :
  fs_get (w_fs w') src = fs_get (w_fs w) src -> writes_of md w' src = writes_of md w src.
Proof. intros H. unfold writes_of. rewrite (items_of_same md w w' src H). reflexivity. Qed.
Lemma reads_of_same first md w w' src :
  fs_get (w_fs w') src = fs_get (w_fs w) src -> reads_of first md w' src = reads_of first md w src.
Proof. intros H. unfold reads_of. rewrite (items_of_same md w w' src H). reflexivity. Qed.

Lemma in_paths_dec (xs : list path) (p : path) : In p xs \/ ~ In p xs.
Proof.
  destruct (in_paths xs p) eqn:E; [left; apply in_paths_true|right; apply in_paths_false]; exact E.
Qed.

Definition independent (md : mode) (w : world) (f1 : path) (first1 : bool) (f2 : path) (first2 : bool) : Prop :=
  (forall p, In p (writes_of md w f1) -> ~ In p (writes_of md w f2) /\ ~ In p (reads_of first2 md w f2)) /\
  (forall p, In p (writes_of md w f2) -> ~ In p (reads_of first1 md w f1)) /\
  (* what is written is a regular file or absent before and after (no directory is created or removed by a pass) *)
  (forall p, In p (writes_of md w f1) \/ In p (writes_of md w f2) -> fs_get (w_fs w) p <> Some Dir).

(* the canonicity hypotheses of `passes_commute` are not needed *)
Lemma passes_commute_gen orc md base tn f1 first1 f2 first2 w :
  independent md w f1 first1 f2 first2 ->
  let o1 := pp_run orc md base f1 first1 tn w in
  let o2' := pp_run orc md base f2 first2 tn (out_world o1 w) in
  let o2 := pp_run orc md base f2 first2 tn w in
  let o1' := pp_run orc md base f1 first1 tn (out_world o2 w) in
  tag_of o1 = tag_of o1' /\ tag_of o2 = tag_of o2' /\
  w_eq (out_world o2' (out_world o1 w)) (out_world o1' (out_world o2 w)).
Proof.
  intros (I1 & I2 & I3) o1 o2' o2 o1'.
  set (W1 := writes_of md w f1) in *. set (W2 := writes_of md w f2) in *.
  set (wA := out_world o1 w) in *. set (wB := out_world o2 w) in *.
  assert (F1 : forall p, ~ In p W1 -> fs_get (w_fs wA) p = fs_get (w_fs w) p).
  { intros p Hp. apply pass_footprint; assumption. }
  assert (F2 : forall p, ~ In p W2 -> fs_get (w_fs wB) p = fs_get (w_fs w) p).
  { intros p Hp. apply pass_footprint; assumption. }
  assert (S1 : ~ In f1 W2). { intros H. apply (I2 _ H). left. reflexivity. }
  assert (S2 : ~ In f2 W1). { intros H. destruct (I1 _ H) as [_ Hr]. apply Hr. left. reflexivity. }
  assert (W1' : writes_of md wB f1 = W1) by (apply writes_of_same, F2, S1).
  assert (W2' : writes_of md wA f2 = W2) by (apply writes_of_same, F1, S2).
  assert (F1' : forall p, ~ In p W1 -> fs_get (w_fs (out_world o1' wB)) p = fs_get (w_fs wB) p).
  { intros p Hp. apply pass_footprint. rewrite W1'. exact Hp. }
  assert (F2' : forall p, ~ In p W2 -> fs_get (w_fs (out_world o2' wA)) p = fs_get (w_fs wA) p).
  { intros p Hp. apply pass_footprint. rewrite W2'. exact Hp. }
  destruct (pass_ignores_foreign_changes orc md base f1 first1 tn W2 w wB) as [T1 A1].
  { intros p Hp. symmetry. apply F2. exact Hp. }
  { intros p Hp. split; [apply I3; right; exact Hp|]. apply pp_run_no_new_dir. apply I3. right. exact Hp. }
  { intros p Hp. split; [apply I2; exact Hp|]. intros H1. destruct (I1 _ H1) as [Hn _]. exact (Hn Hp). }
  destruct (pass_ignores_foreign_changes orc md base f2 first2 tn W1 w wA) as [T2 A2].
  { intros p Hp. symmetry. apply F1. exact Hp. }
  { intros p Hp. split; [apply I3; left; exact Hp|]. apply pp_run_no_new_dir. apply I3. left. exact Hp. }
  { intros p Hp. destruct (I1 _ Hp) as [Hw Hr]. split; assumption. }
  fold o1 o1' wB in T1, A1. fold o2 o2' wA in T2, A2.
  split; [exact T1|]. split; [exact T2|].
  intros p.
  destruct (in_paths_dec W1 p) as [H1|H1].
  - assert (H2 : ~ In p W2) by (apply I1; exact H1).
    rewrite F2' by exact H2. apply A1. exact H2.
  - destruct (in_paths_dec W2 p) as [H2|H2].
    + rewrite F1' by exact H1. symmetry. apply A2. exact H1.
    + rewrite F2', F1' by assumption. rewrite F1, F2 by assumption. reflexivity.
Qed.


Theorem passes_commute orc md base tn f1 first1 f2 first2 w :
  all_normal f1 -> no_dotdot_prefix f1 -> all_normal f2 -> no_dotdot_prefix f2 ->
  independent md w f1 first1 f2 first2 ->
  let o1 := pp_run orc md base f1 first1 tn w in
  let o2' := pp_run orc md base f2 first2 tn (out_world o1 w) in
  let o2 := pp_run orc md base f2 first2 tn w in
  let o1' := pp_run orc md base f1 first1 tn (out_world o2 w) in
  tag_of o1 = tag_of o1' /\ tag_of o2 = tag_of o2' /\
  w_eq (out_world o2' (out_world o1 w)) (out_world o1' (out_world o2 w)).
Proof. intros _ _ _ _. apply passes_commute_gen. Qed.

(* ---- stage 3 (DESIGN, stretch): what these give for whole runs. State and prove the strongest you can of:
   (a) `stale_outputs_irrelevant`: in Build mode, if two initial worlds agree everywhere except on the output paths of
       their `.txtpp` sources (regular files or absent there), then `Run.txtpp_run` with the same schedule gives the same
       verdict and traces, and the final worlds agree outside the outputs of sources that were never processed.
       (Needs Run.v / RunFacts.v: import Txtpp.Run, Txtpp.proofs.RunFacts, Txtpp.proofs.CoordFacts as needed. Hint: an invariant
       relating the two runs step by step: the coordinator states are EQUAL, the worlds agree outside the outputs of files
       that have not completed any pass yet; a first or final Build pass of f truncates out f in both worlds
       (FrameFacts.build_pass_ignores_old_output_weaker generalised to worlds that ALSO differ on foreign outputs: use
       pp_run_frame_agree with X = the foreign stale outputs, which f does not probe unless it includes them, in which case they are
       dependencies: a first pass does not read them and a final pass runs only after they finished, i.e. after they were rewritten in both worlds).
       You will need a domain hypothesis saying that the only probes of a source into other sources' outputs are its include/after targets;
       choose it as weak as you can.)
   (b) `independent_tasks_commute_in_run`: two in-flight preprocessing tasks of a reachable state whose footprints are independent can be
       executed in either order with the same task results and w_eq worlds (a corollary of passes_commute for `Run.exec_task`).
   Leave NO Admitted: delete what you cannot finish and report how far you got. *)

(* ================= stage 3 ================= *)
(* ---- (b) two independent preprocessing tasks can be executed in either order ---- *)
Require Import Txtpp.Dep Txtpp.Coord Txtpp.Run.
Require Import Txtpp.proofs.CoordFacts Txtpp.proofs.RunFacts.
From Coq Require Import Permutation.

(* what the coordinator receives from a pass, as a function of the tag of its outcome *)
Definition res_of_tag (f : path) (t : otag) : option result :=
  match t with
  | TOk => Some (RPp f (Some POk))
  | TDeps d => Some (RPp f (Some (PDeps d)))
  | TErr _ => Some (RPp f None)
  | TPanic => None
  end.

Lemma exec_task_pp orc cfg base f first w :
  let o := pp_run orc (cfg_mode cfg) base f first (cfg_trailing cfg) w in
  exec_task orc cfg base (TPp f first) w =
  match res_of_tag f (tag_of o) with Some r => Some (r, out_world o w) | None => None end.
Proof. cbn [exec_task]. destruct (pp_run orc (cfg_mode cfg) base f first (cfg_trailing cfg) w); reflexivity. Qed.

Lemma res_of_tag_some orc md base f first tn w :
  exists r, res_of_tag f (tag_of (pp_run orc md base f first tn w)) = Some r.
Proof.
  pose proof (pp_run_no_panic orc md base f first tn w) as H.
  destruct (pp_run orc md base f first tn w); simpl; try (eexists; reflexivity). congruence.
Qed.

Theorem independent_tasks_commute_in_run orc cfg base f1 first1 f2 first2 w :
  independent (cfg_mode cfg) w f1 first1 f2 first2 ->
  exists r1 r2 wA wB wAB wBA,
    exec_task orc cfg base (TPp f1 first1) w = Some (r1, wA) /\
    exec_task orc cfg base (TPp f2 first2) w = Some (r2, wB) /\
    exec_task orc cfg base (TPp f2 first2) wA = Some (r2, wAB) /\
    exec_task orc cfg base (TPp f1 first1) wB = Some (r1, wBA) /\
    w_eq wAB wBA.
Proof.
  intros Hind.
  destruct (passes_commute_gen orc (cfg_mode cfg) base (cfg_trailing cfg) f1 first1 f2 first2 w Hind)
    as (T1 & T2 & HW).
  set (o1 := pp_run orc (cfg_mode cfg) base f1 first1 (cfg_trailing cfg) w) in *.
  set (o2 := pp_run orc (cfg_mode cfg) base f2 first2 (cfg_trailing cfg) w) in *.
  set (o2' := pp_run orc (cfg_mode cfg) base f2 first2 (cfg_trailing cfg) (out_world o1 w)) in *.
  set (o1' := pp_run orc (cfg_mode cfg) base f1 first1 (cfg_trailing cfg) (out_world o2 w)) in *.
  destruct (res_of_tag_some orc (cfg_mode cfg) base f1 first1 (cfg_trailing cfg) w) as [r1 E1].
  destruct (res_of_tag_some orc (cfg_mode cfg) base f2 first2 (cfg_trailing cfg) w) as [r2 E2].
  fold o1 in E1. fold o2 in E2.
  exists r1, r2, (out_world o1 w), (out_world o2 w), (out_world o2' (out_world o1 w)), (out_world o1' (out_world o2 w)).
  rewrite !exec_task_pp. cbv zeta. fold o1 o2. fold o2' o1'. rewrite <- T1, <- T2, E1, E2.
  repeat split. exact HW.
Qed.

(* ---- (a) stale outputs ----
   AS BUILT.  Two worlds w1, w2 are related by `stale_rel D w1 w2` (below): they hold the same nodes outside the list D of
   stale paths, have the same directories, no duplicate entries, and list the same directories and `.txtpp` files in the
   same storage order (this is what `scan_dir` reads; `stale_rel_put` builds such pairs).  In Build mode:
     * `build_pass_stale`: one pass of f in two worlds that differ on D (own output included) gives the same verdict and,
       once the output is created, worlds that differ on D minus the output only, provided the pass probes no other
       path of D (FrameFacts.probes);
     * `pp_run_scan`: a pass that writes no `.txtpp` name does not change what directory scans see;
     * `loop_sim`: a generic lock-step simulation of `run_loop`/`drain` in two worlds;
     * `stale_outputs_irrelevant(_loop)`: same verdict, same trace, same final coordinator state, and the final worlds are
       related with the stale set `stale_after D trace` = D minus the outputs of the sources of which some pass reported
       success (`in_stale_after`, `stale_rel_after_agree`).  The domain hypothesis is the weakest one the pass-level
       theorem allows, stated on the run over the FIRST world only (`run_stale_safe`): every pass it executes, at the
       moment it is executed, probes none of the paths that are still stale then, except its own output; besides, the
       base directory and the inputs do not name stale paths (`input_safe`);
     * `stale_outputs_irrelevant_static`: the same from a condition on the initial tree alone (`static_ok`: no source
       probes a stale path other than its own output); `stale_outputs_irrelevant_nonvacuous` is a concrete instance.
   NOT DONE: deriving `run_stale_safe` for sources that include the (stale) output of another source from the order
   the coordinator imposes (CoordFacts.final_pass_deps_finished).  Two ingredients are missing: a frame theorem for first
   passes that does not count an include target as probed when a `.txtpp` candidate exists (FrameFacts.probes does), and
   the fact that the dependencies a first pass reports are exactly the sources of the outputs its final pass includes.
   With `run_stale_safe` as hypothesis the theorem already covers the schedules in which the included output has been
   rebuilt before the including file is first looked at. *)
(* the stale set once `out` has been rewritten *)
Definition drop_path (out : path) (D : list path) : list path := filter (fun p => negb (path_eqb out p)) D.
Lemma in_drop_path out D p : In p (drop_path out D) <-> In p D /\ p <> out.
Proof.
  unfold drop_path. rewrite filter_In. split; intros [H1 H2]; (split; [exact H1|]).
  - intros ->. rewrite path_eqb_refl in H2. discriminate.
  - destruct (path_eqb out p) eqn:E; [|reflexivity]. apply path_eqb_eq in E. subst p. exfalso. apply H2. reflexivity.
Qed.
Lemma wR_mono (D D' : list path) w1 w2 :
  (forall p, In p D' -> In p D) -> wR (in_paths D') w1 w2 -> wR (in_paths D) w1 w2.
Proof.
  intros Hsub [A B]. split; [|exact B]. intros p Hp. apply A. apply in_paths_false. intros Hin.
  apply in_paths_false in Hp. apply Hp. apply Hsub. exact Hin.
Qed.

(* A Build pass of `f` in two worlds that differ on a set D of stale paths, possibly including the output of `f`
   itself: provided the pass probes no path of D except its own output, the two passes give the same verdict; if they
   get as far as creating the output, the resulting worlds differ at most on D minus the output *)
Theorem build_pass_stale orc base f first tn (D : list path) w1 w2 out :
  wR (in_paths D) w1 w2 ->
  remove_txtpp f = Some out ->
  all_normal (parent f) ->
  ~ In f D ->
  (forall p, In p (probes first Build f (items_of Build w1 f)) -> In p D -> p = out) ->
  let o1 := pp_run orc Build base f first tn w1 in
  let o2 := pp_run orc Build base f first tn w2 in
  tag_of o1 = tag_of o2 /\
  ((o1 = PpErr KOpen w1 /\ o2 = PpErr KOpen w2) \/
   wR (in_paths (drop_path out D)) (out_world o1 w1) (out_world o2 w2)).
Proof.
  intros W Hrm Hnorm Hf Hpr o1 o2. subst o1 o2.
  destruct (remove_txtpp_shape f out Hrm) as (dir & n & m & Es & Eo).
  assert (Hdir : all_normal dir).
  { unfold parent in Hnorm. rewrite Es, removelast_last in Hnorm. exact Hnorm. }
  destruct W as [WA WD].
  unfold items_of in Hpr.
  pose proof (pp_run_no_panic orc Build base f first tn w1) as NP. revert NP.
  rewrite !pp_run_unfold. unfold read_file in *.
  rewrite <- (WA f) by (apply in_paths_false; exact Hf).
  destruct (fs_get (w_fs w1) f) as [[raw|]|]; try (intros _; split; [reflexivity|left; split; reflexivity]).
  rewrite Hrm. destruct (is_txtpp_file out); [intros _; split; [reflexivity|left; split; reflexivity]|].
  unfold sink_new, w_write.
  rewrite (write_target_dirs (w_fs w1) (w_fs w2) out WD).
  destruct (write_target (w_fs w2) out) as [q|] eqn:Ew; [|intros _; split; [reflexivity|left; split; reflexivity]].
  assert (q = out).
  { destruct (write_target_shape _ _ _ Ew) as (rp & n' & Ep & _ & Eq).
    rewrite Eo in Ep. apply app_inj_tail in Ep. destruct Ep as [<- <-].
    rewrite Eq, Eo. rewrite (lex_normalize_normal dir Hdir). reflexivity. }
  subst q. intros NP.
  assert (Hnd : is_dir (w_fs w2) out = false) by (eapply write_target_not_dir; eauto).
  assert (out_ne : out <> []) by (intros ->; rewrite is_dir_nil in Hnd; discriminate).
  set (D' := drop_path out D).
  set (a1 := mkW (fs_put (w_fs w1) out (File [])) (w_log w1 ++ [EWrite out])).
  set (a2 := mkW (fs_put (w_fs w2) out (File [])) (w_log w2 ++ [EWrite out])).
  assert (W' : wR (in_paths D') a1 a2).
  { split; cbn [a1 a2 w_fs].
    - intros p Hp. destruct (path_dec out p) as [<-|Hne].
      + rewrite !fs_get_put_same by exact out_ne. reflexivity.
      + rewrite !fs_get_put_other by exact Hne. apply WA. apply in_paths_false. intros Hin.
        apply in_paths_false in Hp. apply Hp. apply in_drop_path. split; [exact Hin|congruence].
    - intros p. rewrite !is_dir_put_file by exact out_ne. rewrite WD. reflexivity. }
  assert (Hk : FrameFacts.sink_ok (in_paths D') (SBuild out)).
  { cbn. apply in_paths_false. intros Hin. apply in_drop_path in Hin. destruct Hin as [_ Hin]. apply Hin. reflexivity. }
  pose proof (pp_rest_same (in_paths D') orc Build base f first tn raw (SBuild out) a1 a2 W' Hk) as H.
  assert (Hp' : forall p, In p (probes first Build f (items_of' Build raw)) -> in_paths D' p = false).
  { intros p Hp. apply in_paths_false. intros Hin. apply in_drop_path in Hin. destruct Hin as [Hin Hne].
    apply Hne. apply Hpr; assumption. }
  specialize (H Hp'). fold a1 in NP.
  destruct (pp_rest orc Build base f first tn raw (SBuild out) a1) as [b1|d1 b1|k1 b1|],
           (pp_rest orc Build base f first tn raw (SBuild out) a2) as [b2|d2 b2|k2 b2|]; simpl in H; try contradiction; simpl.
  - split; [reflexivity|right; exact H].
  - destruct H as [-> H]. split; [reflexivity|right; exact H].
  - destruct H as [-> H]. split; [reflexivity|right; exact H].
Qed.

(* ---- the tree as a list: a pass is a sequence of primitive operations on the paths it logs ---- *)
Inductive wop := OPut (q : path) (c : str) | ODel (q : path) | OLog (e : event).
Definition apply_op (w : world) (o : wop) : world :=
  match o with
  | OPut q c => mkW (fs_put (w_fs w) q (File c)) (w_log w ++ [EWrite q])
  | ODel q => mkW (fs_del (w_fs w) q) (w_log w ++ [ERemove q])
  | OLog e => w_emit w e
  end.
Definition op_event (o : wop) : event :=
  match o with OPut q _ => EWrite q | ODel q => ERemove q | OLog e => e end.
Definition op_target (o : wop) : option path :=
  match o with OPut q _ => Some q | ODel q => Some q | OLog _ => None end.
(* put and delete only where there is no directory *)
Definition op_ok (w : world) (o : wop) : Prop :=
  match op_target o with Some q => is_dir (w_fs w) q = false | None => True end.
Definition run_ops (w : world) (ops : list wop) : world := fold_left apply_op ops w.
Fixpoint ops_ok (w : world) (ops : list wop) : Prop :=
  match ops with [] => True | o :: r => op_ok w o /\ ops_ok (apply_op w o) r end.
Definition by_ops (w w' : world) : Prop := exists ops, ops_ok w ops /\ w' = run_ops w ops.

Lemma ops_ok_app w a b : ops_ok w a -> ops_ok (run_ops w a) b -> ops_ok w (a ++ b).
Proof.
  revert w. induction a as [|o a IH]; intros w Ha Hb; [exact Hb|].
  destruct Ha as [H1 H2]. split; [exact H1|]. apply IH; assumption.
Qed.
Lemma run_ops_log w ops : w_log (run_ops w ops) = w_log w ++ map op_event ops.
Proof.
  revert w. induction ops as [|o r IH]; intros w; [symmetry; apply app_nil_r|].
  cbn [run_ops fold_left map]. change (fold_left apply_op r (apply_op w o)) with (run_ops (apply_op w o) r).
  rewrite IH. destruct o; cbn; rewrite <- app_assoc; reflexivity.
Qed.

Theorem pp_run_by_ops orc md base src first tn w :
  by_ops w (out_world (pp_run orc md base src first tn w) w).
Proof.
  assert (H : ores_R by_ops w (pp_run orc md base src first tn w)).
  { apply pp_run_R.
    - intros w0. exists []. split; [exact I|reflexivity].
    - intros a b c (o1 & K1 & E1) (o2 & K2 & E2). exists (o1 ++ o2). subst b c. split.
      + apply ops_ok_app; assumption.
      + unfold run_ops. rewrite fold_left_app. reflexivity.
    - intros w0 p c w' H. unfold w_write in H.
      destruct (write_target (w_fs w0) p) as [q|] eqn:E; [|discriminate]. inversion H; subst w'.
      exists [OPut q c]. split; [|reflexivity]. split; [|exact I]. unfold op_ok. cbn.
      eapply write_target_not_dir; eauto.
    - intros w0 q c w' H. unfold w_append in H.
      destruct (fs_get (w_fs w0) q) as [[old|]|] eqn:E; try discriminate. inversion H; subst w'.
      exists [OPut q (old ++ c)]. split; [|reflexivity]. split; [|exact I]. unfold op_ok, is_dir. cbn. rewrite E. reflexivity.
    - intros w0 q w' H. unfold w_remove_file in H.
      destruct (fs_get (w_fs w0) q) as [[old|]|] eqn:E; try discriminate. inversion H; subst w'.
      exists [ODel q]. split; [|reflexivity]. split; [|exact I]. unfold op_ok, is_dir. cbn. rewrite E. reflexivity.
    - intros w0 e. exists [OLog e]. split; [|reflexivity]. split; exact I. }
  destruct (pp_run orc md base src first tn w); simpl in *; try exact H.
  exists []. split; [exact I|reflexivity].
Qed.

(* ... and the operations are on the footprint *)
Theorem pp_run_ops_footprint orc md base src first tn w :
  exists ops, ops_ok w ops /\ out_world (pp_run orc md base src first tn w) w = run_ops w ops /\
              forall o q, In o ops -> op_target o = Some q -> In q (writes_of md w src).
Proof.
  destruct (remove_txtpp src) as [out|] eqn:Ho.
  - destruct (pp_run_by_ops orc md base src first tn w) as (ops & Hok & Hrun).
    exists ops. split; [exact Hok|]. split; [exact Hrun|].
    assert (G : forall w', (pp_run orc md base src first tn w = PpOk w' \/
                            (exists d, pp_run orc md base src first tn w = PpHasDeps d w') \/
                            (exists k, pp_run orc md base src first tn w = PpErr k w')) ->
                 w' = run_ops w ops ->
                 forall o q, In o ops -> op_target o = Some q -> In q (writes_of md w src)).
    { intros w' Hres Hw' o q Hin Hq.
      destruct (pp_run_events_general orc md src base first tn w out Ho w' Hres) as (evs & Hext & Hall).
      unfold extends in Hext. rewrite Hw', run_ops_log in Hext. apply app_inv_head in Hext. subst evs.
      rewrite Forall_forall in Hall. specialize (Hall (op_event o) (in_map op_event ops o Hin)).
      unfold ev_allowed in Hall. unfold writes_of. rewrite Ho.
      destruct o as [q' c|q'|e]; cbn in Hq, Hall; inversion Hq; subst; exact Hall. }
    destruct (pp_run orc md base src first tn w) as [a|d a|k a|] eqn:E; simpl in Hrun.
    + apply (G a); [left; reflexivity|exact Hrun].
    + apply (G a); [right; left; exists d; reflexivity|exact Hrun].
    + apply (G a); [right; right; exists k; reflexivity|exact Hrun].
    + exfalso. revert E. apply pp_run_no_panic.
  - exists []. split; [exact I|]. split; [|intros o q []].
    unfold pp_run. rewrite Ho. destruct (read_file (w_fs w) src); reflexivity.
Qed.

(* ---- what a directory scan looks at: the directory entries and the `.txtpp` file entries, in storage order ---- *)
Definition scan_keep (e : path * node) : bool :=
  match snd e with Dir => true | File _ => is_txtpp_file (fst e) end.
Definition scanpart (f : fs) : fs := filter scan_keep f.

Lemma flat_map_filter_nil {A B} (g : A -> list B) (k : A -> bool) l :
  (forall x, k x = false -> g x = []) -> flat_map g (filter k l) = flat_map g l.
Proof.
  intros H. induction l as [|x l IH]; [reflexivity|]. simpl. destruct (k x) eqn:E; simpl.
  - rewrite IH. reflexivity.
  - rewrite (H x E), IH. reflexivity.
Qed.
Lemma flat_map_flat_map {A B C} (g : B -> list C) (h : A -> list B) l :
  flat_map g (flat_map h l) = flat_map (fun x => flat_map g (h x)) l.
Proof.
  induction l as [|x l IH]; [reflexivity|]. simpl. rewrite flat_map_app, IH. reflexivity.
Qed.

Lemma children_scanpart {C} (g : name * node -> list C) f d :
  (forall n c, is_txtpp_file [n] = false -> g (n, File c) = []) ->
  flat_map g (children (scanpart f) d) = flat_map g (children f d).
Proof.
  intros Hg. unfold children, scanpart. rewrite !flat_map_flat_map. apply flat_map_filter_nil.
  intros [p nd] Hk. unfold scan_keep in Hk. cbn [fst snd] in *.
  destruct nd as [c|]; [|discriminate].
  destruct (rev p) as [|n rp] eqn:Er; [reflexivity|].
  destruct (path_eqb (rev rp) d); [|reflexivity]. cbn. rewrite app_nil_r. apply Hg.
  apply rev_cons_eq in Er. subst p. rewrite (is_txtpp_last (rev rp) [] n) in Hk. exact Hk.
Qed.

(* a scan sees the same thing in two trees with the same scan part and the same directories *)
Lemma scan_dir_ext f1 f2 d rec :
  scanpart f1 = scanpart f2 -> is_dir f1 d = is_dir f2 d -> scan_dir f1 d rec = scan_dir f2 d rec.
Proof.
  intros Hs Hd. unfold scan_dir. rewrite <- Hd. destruct (is_dir f1 d); [|reflexivity].
  set (gF := fun e : name * node => match snd e with
                             | File _ => if is_txtpp_file [fst e] then [d ++ [fst e]] else []
                             | Dir => []
                             end).
  set (gD := fun e : name * node => match snd e with
                             | Dir => if rec then [d ++ [fst e]] else []
                             | File _ => []
                             end).
  assert (HF : forall n c, is_txtpp_file [n] = false -> gF (n, File c) = []).
  { intros n c H. unfold gF. cbn. rewrite H. reflexivity. }
  assert (HD : forall n c, is_txtpp_file [n] = false -> gD (n, File c) = []) by reflexivity.
  rewrite <- (children_scanpart gF f1 d HF), <- (children_scanpart gF f2 d HF).
  rewrite <- (children_scanpart gD f1 d HD), <- (children_scanpart gD f2 d HD).
  rewrite Hs. reflexivity.
Qed.

(* ---- keys without duplicates: preserved by the primitive operations, and they keep the scan part when the target is
   neither a directory nor a `.txtpp` name ---- *)
Lemma in_keys_del f q k : In k (map fst (fs_del f q)) -> In k (map fst f) /\ k <> q.
Proof.
  induction f as [|[a n] r IH]; [intros []|]. simpl. destruct (path_eqb a q) eqn:E.
  - intros H. destruct (IH H) as [H1 H2]. split; [right; exact H1|exact H2].
  - intros [H|H].
    + simpl in H. subst k. split; [left; reflexivity|]. intros ->. rewrite path_eqb_refl in E. discriminate.
    + destruct (IH H) as [H1 H2]. split; [right; exact H1|exact H2].
Qed.
Lemma nodup_keys_del f q : NoDup (map fst f) -> NoDup (map fst (fs_del f q)).
Proof.
  induction f as [|[a n] r IH]; [intros H; exact H|]. simpl. intros H. inversion H as [|x l Hn Hr]; subst.
  destruct (path_eqb a q); [apply IH; exact Hr|]. simpl. constructor; [|apply IH; exact Hr].
  intros Hin. apply in_keys_del in Hin. apply Hn. apply Hin.
Qed.
Lemma nodup_keys_put f q n : NoDup (map fst f) -> NoDup (map fst (fs_put f q n)).
Proof.
  intros H. unfold fs_put. simpl. constructor; [|apply nodup_keys_del; exact H].
  intros Hin. apply in_keys_del in Hin. apply (proj2 Hin). reflexivity.
Qed.
Lemma scanpart_del f q :
  (forall n, In (q, n) f -> scan_keep (q, n) = false) -> scanpart (fs_del f q) = scanpart f.
Proof.
  induction f as [|[a n] r IH]; [reflexivity|]. intros H. simpl. destruct (path_eqb a q) eqn:E.
  - apply path_eqb_eq in E. subst a. rewrite (H n (or_introl eq_refl)). apply IH.
    intros n' Hn'. apply H. right. exact Hn'.
  - simpl. rewrite IH; [reflexivity|]. intros n' Hn'. apply H. right. exact Hn'.
Qed.
Lemma not_kept f q : NoDup (map fst f) -> is_dir f q = false -> is_txtpp_file q = false ->
  forall n, In (q, n) f -> scan_keep (q, n) = false.
Proof.
  intros ND Hd Ht n Hin. assert (Hq : q <> []) by (intros ->; rewrite is_dir_nil in Hd; discriminate).
  pose proof (in_nodup_fs_get f q n ND Hq Hin) as G. unfold is_dir in Hd. rewrite G in Hd.
  unfold scan_keep. cbn. destruct n; [exact Ht|discriminate].
Qed.

Definition raw_ok (w : world) : Prop := NoDup (map fst (w_fs w)).

Lemma apply_op_scan w o :
  raw_ok w -> op_ok w o -> (forall q, op_target o = Some q -> is_txtpp_file q = false) ->
  raw_ok (apply_op w o) /\ scanpart (w_fs (apply_op w o)) = scanpart (w_fs w).
Proof.
  intros ND Hok Ht. destruct o as [q c|q|e]; cbn in *.
  - split; [apply nodup_keys_put; exact ND|].
    unfold scan_keep at 1. cbn. rewrite (Ht q eq_refl). apply scanpart_del.
    apply not_kept; auto.
  - split; [apply nodup_keys_del; exact ND|]. apply scanpart_del. apply not_kept; auto.
  - split; [exact ND|reflexivity].
Qed.
Lemma run_ops_scan ops : forall w,
  raw_ok w -> ops_ok w ops -> (forall o q, In o ops -> op_target o = Some q -> is_txtpp_file q = false) ->
  raw_ok (run_ops w ops) /\ scanpart (w_fs (run_ops w ops)) = scanpart (w_fs w).
Proof.
  induction ops as [|o r IH]; intros w ND Hok Ht; [split; [exact ND|reflexivity]|].
  destruct Hok as [H1 H2].
  destruct (apply_op_scan w o ND H1 (fun q Hq => Ht o q (or_introl eq_refl) Hq)) as [ND' S'].
  destruct (IH (apply_op w o) ND' H2 (fun o' q Hin Hq => Ht o' q (or_intror Hin) Hq)) as [ND2 S2].
  split; [exact ND2|]. cbn [run_ops fold_left]. change (fold_left apply_op r (apply_op w o)) with (run_ops (apply_op w o) r).
  rewrite S2. exact S'.
Qed.

(* a pass that writes no `.txtpp` name leaves the scan part of a duplicate-free tree alone *)
Theorem pp_run_scan orc md base src first tn w :
  raw_ok w -> (forall q, In q (writes_of md w src) -> is_txtpp_file q = false) ->
  let w' := out_world (pp_run orc md base src first tn w) w in
  raw_ok w' /\ scanpart (w_fs w') = scanpart (w_fs w).
Proof.
  intros ND Ht w'. subst w'.
  destruct (pp_run_ops_footprint orc md base src first tn w) as (ops & Hok & Hrun & Hfp).
  rewrite Hrun. apply run_ops_scan; [exact ND|exact Hok|].
  intros o q Hin Hq. apply Ht. apply (Hfp o q Hin Hq).
Qed.

(* ---- two runs side by side: a generic simulation ----
   `Rel i` relates the two worlds, the index `i` (for us: the set of still stale paths) is updated by `upd` at every
   completed task; `safe i t w` is what is asked of the task `t` executed by the FIRST run in the world `w`. *)
Section TwoRuns.
Variable orc : oracle.
Variable cfg : config.
Variable base : path.
Variable I : Type.
Variable Rel : I -> world -> world -> Prop.
Variable upd : I -> task -> result -> I.
Variable safe : I -> task -> world -> Prop.
Hypothesis step_sim : forall i t w1 w2 r w1', Rel i w1 w2 -> safe i t w1 ->
  exec_task orc cfg base t w1 = Some (r, w1') ->
  exists w2', exec_task orc cfg base t w2 = Some (r, w2') /\ Rel (upd i t r) w1' w2'.

Definition upd_trace (i : I) (tr : list (task * result)) : I :=
  fold_left (fun i x => upd i (fst x) (snd x)) tr i.

(* "every task executed by the run satisfies `safe`", following Run.drain and Run.run_loop step by step *)
Fixpoint drain_safe (i : I) (fuel : nat) (sched : list nat) (l : list task) (w : world) : Prop :=
  match fuel with
  | O => True
  | S fuel' =>
    match sort_tasks l with
    | [] => True
    | t0 :: _ =>
      let sl := sort_tasks l in
      let k := pick sched sl in
      let t := nth k sl t0 in
      safe i t w /\
      match exec_task orc cfg base t w with
      | None => True
      | Some (r, w') => drain_safe (upd i t r) fuel' (tl sched) (remove_nth k sl) w'
      end
    end
  end.
Fixpoint loop_safe (i : I) (fuel : nat) (sched : list nat) (s : cstate) (w : world) : Prop :=
  match sort_tasks (inflight s) with
  | [] => True
  | t0 :: _ =>
    match fuel with
    | O => True
    | S fuel' =>
      let sl := sort_tasks (inflight s) in
      let k := pick sched sl in
      let t := nth k sl t0 in
      let s1 := with_inflight s (remove_nth k sl) in
      safe i t w /\
      match exec_task orc cfg base t w with
      | None => True
      | Some (r, w') =>
        match handle s1 r with
        | Continue s2 => loop_safe (upd i t r) fuel' (tl sched) s2 w'
        | Fail => drain_safe (upd i t r) (length (inflight s1)) (tl sched) (inflight s1) w'
        | Panic => True
        end
      end
    end
  end.

Lemma drain_sim fuel : forall i sched l w1 w2 tr w1' tr',
  Rel i w1 w2 -> drain_safe i fuel sched l w1 ->
  drain orc cfg base fuel sched l w1 tr = Some (w1', tr') ->
  exists w2' added, tr' = tr ++ added /\ drain orc cfg base fuel sched l w2 tr = Some (w2', tr') /\
                    Rel (upd_trace i added) w1' w2'.
Proof.
  induction fuel as [|fuel IH]; intros i sched l w1 w2 tr w1' tr' HR HS HD; cbn [drain drain_safe] in *.
  - inversion HD; subst. exists w2, []. rewrite app_nil_r. auto.
  - destruct (sort_tasks l) as [|t0 sl'] eqn:E.
    + inversion HD; subst. exists w2, []. rewrite app_nil_r. auto.
    + cbv zeta in *. set (sl := t0 :: sl') in *. set (k := pick sched sl) in *. set (t := nth k sl t0) in *.
      destruct HS as [Hsafe HS].
      destruct (exec_task orc cfg base t w1) as [[r wa]|] eqn:E1; [|discriminate].
      destruct (step_sim i t w1 w2 r wa HR Hsafe E1) as (wb & E2 & HR'). rewrite E2.
      destruct (IH _ _ _ _ _ _ _ _ HR' HS HD) as (w2' & added & Et & Hd2 & HR2).
      exists w2', ((t, r) :: added). split; [rewrite Et, <- app_assoc; reflexivity|]. split; [exact Hd2|exact HR2].
Qed.

Theorem loop_sim fuel : forall i sched s w1 w2 tr,
  Rel i w1 w2 -> loop_safe i fuel sched s w1 ->
  let x1 := run_loop orc cfg base fuel sched s w1 tr in
  let x2 := run_loop orc cfg base fuel sched s w2 tr in
  verdict_of x1 = verdict_of x2 /\ trace_of x1 = trace_of x2 /\ state_of x1 = state_of x2 /\
  exists added, trace_of x1 = tr ++ added /\ Rel (upd_trace i added) (world_of x1) (world_of x2).
Proof.
  induction fuel as [|fuel IH]; intros i sched s w1 w2 tr HR HS.
  - destruct (sort_tasks (inflight s)) as [|t0 sl'] eqn:E.
    + rewrite !(run_loop_exit _ _ _ _ _ _ _ _ E). cbn. repeat split.
      exists []. rewrite app_nil_r. split; [reflexivity|exact HR].
    + rewrite !(run_loop_nofuel _ _ _ _ _ _ _ _ _ E). cbn. repeat split.
      exists []. rewrite app_nil_r. split; [reflexivity|exact HR].
  - destruct (sort_tasks (inflight s)) as [|t0 sl'] eqn:E.
    + rewrite !(run_loop_exit _ _ _ _ _ _ _ _ E). cbn. repeat split.
      exists []. rewrite app_nil_r. split; [reflexivity|exact HR].
    + rewrite !(run_loop_step _ _ _ _ _ _ _ _ _ _ E). cbn [loop_safe] in HS. rewrite E in HS. cbv zeta in *.
      set (sl := t0 :: sl') in *. set (k := pick sched sl) in *. set (t := nth k sl t0) in *.
      set (s1 := with_inflight s (remove_nth k sl)) in *.
      destruct HS as [Hsafe HS].
      destruct (exec_task_total orc cfg base t w1) as (r & wa & E1). rewrite E1 in *.
      destruct (step_sim i t w1 w2 r wa HR Hsafe E1) as (wb & E2 & HR'). rewrite E2.
      destruct (handle s1 r) as [s2| |] eqn:Hh.
      * destruct (IH _ (tl sched) s2 wa wb (tr ++ [(t, r)]) HR' HS) as (Hv & Ht & Hs & added & Ea & HRa).
        split; [exact Hv|]. split; [exact Ht|]. split; [exact Hs|].
        exists ((t, r) :: added). split; [rewrite Ea, <- app_assoc; reflexivity|exact HRa].
      * destruct (drain_total orc cfg base (length (inflight s1)) (tl sched) (inflight s1) wa (tr ++ [(t, r)]))
          as (w1' & tr1 & Hd1).
        destruct (drain_sim _ _ _ _ _ wb _ _ _ HR' HS Hd1) as (w2' & added & Et & Hd2 & HR2).
        apply app_inv_head in Et. subst tr1.
        rewrite Hd1, Hd2. cbn. repeat split.
        exists ((t, r) :: added). split; [rewrite <- app_assoc; reflexivity|exact HR2].
      * cbn. repeat split. exists [(t, r)]. split; [reflexivity|exact HR'].
Qed.
End TwoRuns.

(* ---- the instance: worlds that differ on a set D of stale paths ---- *)
(* the two worlds hold the same nodes outside D and have the same directories (in particular: no directory in D in only
   one of them); their trees have no duplicate entries and list the same directories and `.txtpp` files in the same order *)
Record stale_rel (D : list path) (w1 w2 : world) : Prop := mkSR {
  sr_agree : wR (in_paths D) w1 w2;
  sr_raw1 : raw_ok w1;
  sr_raw2 : raw_ok w2;
  sr_scan : scanpart (w_fs w1) = scanpart (w_fs w2) }.

(* a pass of f that reported success has rewritten the output of f in both worlds *)
Definition stale_upd (D : list path) (t : task) (r : result) : list path :=
  match t, r with
  | TPp f _, RPp _ (Some _) => match remove_txtpp f with Some out => drop_path out D | None => D end
  | _, _ => D
  end.

(* what is asked of a pass of the first run, executed in the world w while D is still stale: the source is not stale and,
   if it can be read, it is canonical, the pass probes no stale path except its own output, and it writes no `.txtpp` name *)
Definition stale_safe (D : list path) (t : task) (w : world) : Prop :=
  match t with
  | TScan _ => True
  | TPp f first =>
    match remove_txtpp f with
    | None => True
    | Some out =>
      ~ In f D /\
      (forall raw, read_file (w_fs w) f = Some raw ->
         all_normal (parent f) /\
         (forall p, In p (probes first Build f (items_of Build w f)) -> In p D -> p = out) /\
         (forall q, In q (writes_of Build w f) -> is_txtpp_file q = false))
    end
  end.

Lemma pp_run_unreadable orc md base f first tn w :
  read_file (w_fs w) f = None -> pp_run orc md base f first tn w = PpErr KOpen w.
Proof. intros H. unfold pp_run. rewrite H. reflexivity. Qed.
Lemma pp_run_no_out orc md base f first tn w :
  remove_txtpp f = None -> pp_run orc md base f first tn w = PpErr KOpen w.
Proof. intros H. unfold pp_run. rewrite H. destruct (read_file (w_fs w) f); reflexivity. Qed.

Lemma stale_step orc cfg base D t w1 w2 r w1' :
  cfg_mode cfg = Build ->
  stale_rel D w1 w2 -> stale_safe D t w1 ->
  exec_task orc cfg base t w1 = Some (r, w1') ->
  exists w2', exec_task orc cfg base t w2 = Some (r, w2') /\ stale_rel (stale_upd D t r) w1' w2'.
Proof.
  intros Hmd [HA HN1 HN2 HS] Hsafe Hex. destruct t as [d|f first].
  - cbn [exec_task] in *. inversion Hex; subst. exists w2. split.
    + rewrite (scan_dir_ext (w_fs w1') (w_fs w2) d (cfg_recursive cfg) HS (proj2 HA d)). reflexivity.
    + cbn. split; assumption.
  - rewrite exec_task_pp in *. rewrite Hmd in *. cbv zeta in *. cbn [stale_safe] in Hsafe.
    destruct (remove_txtpp f) as [out|] eqn:Ho.
    + destruct Hsafe as (Hf & Hsafe).
      assert (Esrc : fs_get (w_fs w2) f = fs_get (w_fs w1) f).
      { symmetry. apply (proj1 HA). apply in_paths_false. exact Hf. }
      destruct (read_file (w_fs w1) f) as [raw|] eqn:Er.
      2:{ assert (Er2 : read_file (w_fs w2) f = None) by (unfold read_file in *; rewrite Esrc; exact Er).
          rewrite (pp_run_unreadable _ _ _ _ _ _ w1 Er) in Hex. rewrite (pp_run_unreadable _ _ _ _ _ _ w2 Er2).
          cbn in *. inversion Hex; subst. exists w2. split; [reflexivity|]. split; assumption. }
      destruct (Hsafe raw eq_refl) as (Hn & Hpr & Htx).
      destruct (build_pass_stale orc base f first (cfg_trailing cfg) D w1 w2 out HA Ho Hn Hf Hpr) as [Ht Hw].
      set (o1 := pp_run orc Build base f first (cfg_trailing cfg) w1) in *.
      set (o2 := pp_run orc Build base f first (cfg_trailing cfg) w2) in *.
      rewrite <- Ht.
      destruct (res_of_tag f (tag_of o1)) as [r'|] eqn:Er'; [|discriminate]. inversion Hex; subst r' w1'. clear Hex.
      exists (out_world o2 w2). split; [reflexivity|].
      destruct (pp_run_scan orc Build base f first (cfg_trailing cfg) w1 HN1 Htx) as [N1' S1'].
      destruct (pp_run_scan orc Build base f first (cfg_trailing cfg) w2 HN2) as [N2' S2'].
      { rewrite (writes_of_same Build w1 w2 f Esrc). exact Htx. }
      fold o1 in N1', S1'. fold o2 in N2', S2'.
      split; try assumption; [|rewrite S1', S2'; exact HS].
      assert (HD : wR (in_paths D) (out_world o1 w1) (out_world o2 w2)).
      { destruct Hw as [[E1 E2]|Hw]; [rewrite E1, E2; exact HA|].
        apply (wR_mono D (drop_path out D)); [|exact Hw]. intros p Hp. apply in_drop_path in Hp. apply Hp. }
      destruct (tag_of o1) as [|ds|k|] eqn:Etag; cbn in Er'; inversion Er'; subst r; cbn [stale_upd]; rewrite ?Ho;
        try exact HD;
        (destruct Hw as [[E1 _]|Hw]; [rewrite E1 in Etag; discriminate|exact Hw]).
    + rewrite (pp_run_no_out _ _ _ _ _ _ w1 Ho) in Hex. rewrite (pp_run_no_out _ _ _ _ _ _ w2 Ho).
      cbn in *. inversion Hex; subst. exists w2. split; [reflexivity|]. split; assumption.
Qed.

(* the prelude of Txtpp::run: the base directory and the inputs *)
Lemma lex_is_dir_agree X f1 f2 p : agree X f1 f2 -> X (lex_normalize p) = false -> lex_is_dir f1 p = lex_is_dir f2 p.
Proof.
  intros A H. unfold lex_is_dir. rewrite (os_resolve_agree X f1 f2 p A H).
  destruct (os_resolve f2 p); [apply (proj2 A)|reflexivity].
Qed.

Definition input_safe (D : list path) (base : path) (i : str) : Prop :=
  let ip := lex_join base i in
  ~ In (lex_normalize ip) D /\ forall c, In c (txtpp_candidates ip) -> ~ In (lex_normalize c) D.

Lemma resolve_inputs_agree D f1 f2 base inputs : agree (in_paths D) f1 f2 ->
  Forall (input_safe D base) inputs ->
  forall files dirs, resolve_inputs f1 base inputs files dirs = resolve_inputs f2 base inputs files dirs.
Proof.
  intros A. induction inputs as [|i r IH]; intros HF files dirs; [reflexivity|].
  inversion HF as [|x l [H1 H2] Hr]; subst. specialize (IH Hr). cbn [resolve_inputs]. cbv zeta.
  apply in_paths_false in H1.
  rewrite (lex_is_dir_agree _ f1 f2 _ A H1), (os_resolve_agree _ f1 f2 _ A H1).
  rewrite (get_txtpp_file_agree _ f1 f2 _ A (fun c Hc => proj2 (in_paths_false D _) (H2 c Hc))).
  destruct (lex_is_dir f2 (lex_join base i)).
  - destruct (os_resolve f2 (lex_join base i)); [apply IH|reflexivity].
  - destruct (negb (is_txtpp_file (lex_join base i))).
    + destruct (get_txtpp_file f2 (lex_join base i)) as [x|] eqn:G; [|reflexivity].
      assert (Hx : In x (txtpp_candidates (lex_join base i))).
      { unfold get_txtpp_file in G. apply find_some in G. apply G. }
      rewrite (os_resolve_agree _ f1 f2 x A (proj2 (in_paths_false D _) (H2 x Hx))).
      destruct (os_resolve f2 x); [apply IH|reflexivity].
    + destruct (os_resolve f2 (lex_join base i)); [apply IH|reflexivity].
Qed.

(* the paths that are still stale after the tasks of a trace *)
Definition stale_after (D : list path) (tr : list (task * result)) : list path :=
  upd_trace (list path) stale_upd D tr.
(* every pass executed by the loop / by the run (of the FIRST world) is `stale_safe` when it is executed *)
Definition loop_stale_safe (orc : oracle) (cfg : config) (base : path) :=
  loop_safe orc cfg base (list path) stale_upd stale_safe.
Definition run_stale_safe (orc : oracle) (cfg : config) (D : list path) (fuel : nat) (sched : list nat) (w : world) : Prop :=
  match os_resolve (w_fs w) (cfg_base cfg) with
  | None => True
  | Some base =>
    match resolve_inputs (w_fs w) base (cfg_inputs cfg) [] [] with
    | None => True
    | Some (files, dirs) =>
      loop_stale_safe orc cfg base D fuel sched
        (fold_left exec_dir dirs (fold_left (fun s f => exec_file s f true) files c_init)) w
    end
  end.

(* (a) at the level of the coordinator loop, from any coordinator state *)
Theorem stale_outputs_irrelevant_loop orc cfg base fuel sched s D w1 w2 :
  cfg_mode cfg = Build ->
  stale_rel D w1 w2 ->
  loop_stale_safe orc cfg base D fuel sched s w1 ->
  let x1 := run_loop orc cfg base fuel sched s w1 [] in
  let x2 := run_loop orc cfg base fuel sched s w2 [] in
  verdict_of x1 = verdict_of x2 /\ trace_of x1 = trace_of x2 /\ state_of x1 = state_of x2 /\
  stale_rel (stale_after D (trace_of x1)) (world_of x1) (world_of x2).
Proof.
  intros Hmd HR HS.
  destruct (loop_sim orc cfg base (list path) stale_rel stale_upd stale_safe
              (fun i t w1 w2 r w1' => stale_step orc cfg base i t w1 w2 r w1' Hmd)
              fuel D sched s w1 w2 [] HR HS) as (Hv & Ht & Hs & added & Ea & HRa).
  cbv zeta. split; [exact Hv|]. split; [exact Ht|]. split; [exact Hs|].
  rewrite Ea. exact HRa.
Qed.

(* (a) for whole runs *)
Theorem stale_outputs_irrelevant orc cfg fuel sched D w1 w2 :
  cfg_mode cfg = Build ->
  stale_rel D w1 w2 ->
  ~ In (lex_normalize (cfg_base cfg)) D ->
  Forall (input_safe D (lex_normalize (cfg_base cfg))) (cfg_inputs cfg) ->
  run_stale_safe orc cfg D fuel sched w1 ->
  let x1 := txtpp_run orc cfg fuel sched w1 in
  let x2 := txtpp_run orc cfg fuel sched w2 in
  verdict_of x1 = verdict_of x2 /\ trace_of x1 = trace_of x2 /\ state_of x1 = state_of x2 /\
  stale_rel (stale_after D (trace_of x1)) (world_of x1) (world_of x2).
Proof.
  intros Hmd HR Hb Hin HS. unfold txtpp_run, run_stale_safe in *.
  destruct (cfg_threads cfg =? 0); [cbn; split; [reflexivity|split; [reflexivity|split; [reflexivity|exact HR]]]|].
  pose proof (sr_agree _ _ _ HR) as HA.
  rewrite <- (os_resolve_agree _ (w_fs w1) (w_fs w2) (cfg_base cfg) HA (proj2 (in_paths_false D _) Hb)).
  destruct (os_resolve (w_fs w1) (cfg_base cfg)) as [base|] eqn:Eb; [|cbn; split; [reflexivity|split; [reflexivity|split; [reflexivity|exact HR]]]].
  apply os_resolve_normalize in Eb. subst base.
  rewrite <- (resolve_inputs_agree D (w_fs w1) (w_fs w2) _ _ HA Hin [] []).
  destruct (resolve_inputs (w_fs w1) (lex_normalize (cfg_base cfg)) (cfg_inputs cfg) [] []) as [[files dirs]|];
    [|cbn; split; [reflexivity|split; [reflexivity|split; [reflexivity|exact HR]]]].
  apply stale_outputs_irrelevant_loop; assumption.
Qed.

(* ---- a static sufficient condition for `run_stale_safe` ---- *)
(* an invariant of ONE run that implies `safe` and is preserved by every task gives `loop_safe` *)
Section SafeIntro.
Variable orc : oracle.
Variable cfg : config.
Variable base : path.
Variable I : Type.
Variable upd : I -> task -> result -> I.
Variable safe : I -> task -> world -> Prop.
Variable J : I -> world -> Prop.
Hypothesis J_safe : forall i t w, J i w -> safe i t w.
Hypothesis J_step : forall i t w r w', J i w -> exec_task orc cfg base t w = Some (r, w') -> J (upd i t r) w'.

Lemma drain_safe_intro fuel : forall i sched l w, J i w -> drain_safe orc cfg base I upd safe i fuel sched l w.
Proof.
  induction fuel as [|fuel IH]; intros i sched l w HJ; cbn [drain_safe]; [exact Logic.I|].
  destruct (sort_tasks l) as [|t0 sl']; [exact Logic.I|]. cbv zeta. split; [apply J_safe; exact HJ|].
  destruct (exec_task orc cfg base _ w) as [[r w']|] eqn:E; [|exact Logic.I].
  apply IH. eapply J_step; eauto.
Qed.
Lemma loop_safe_intro fuel : forall i sched s w, J i w -> loop_safe orc cfg base I upd safe i fuel sched s w.
Proof.
  induction fuel as [|fuel IH]; intros i sched s w HJ; cbn [loop_safe];
    destruct (sort_tasks (inflight s)) as [|t0 sl']; try exact Logic.I.
  cbv zeta. split; [apply J_safe; exact HJ|].
  destruct (exec_task orc cfg base _ w) as [[r w']|] eqn:E; [|exact Logic.I].
  assert (HJ' := J_step _ _ _ _ _ HJ E).
  destruct (handle _ r); [apply IH; exact HJ'|apply drain_safe_intro; exact HJ'|exact Logic.I].
Qed.
End SafeIntro.

Lemma remove_txtpp_is_txtpp f out : remove_txtpp f = Some out -> is_txtpp_file f = true.
Proof. unfold remove_txtpp. destruct (is_txtpp_file f); [reflexivity|discriminate]. Qed.

(* no stale path has a `.txtpp` name, and every readable source of the initial tree is canonical, probes no stale path
   except its own output (in a first or a final pass), and writes no `.txtpp` name *)
Definition static_ok (D : list path) (w : world) : Prop :=
  (forall p, In p D -> is_txtpp_file p = false) /\
  forall f out raw, remove_txtpp f = Some out -> read_file (w_fs w) f = Some raw ->
    all_normal (parent f) /\
    (forall first p, In p (probes first Build f (items_of Build w f)) -> In p D -> p = out) /\
    (forall q, In q (writes_of Build w f) -> is_txtpp_file q = false).

Lemma stale_upd_sub D t r p : In p (stale_upd D t r) -> In p D.
Proof.
  destruct t as [d|f b]; [intros H; exact H|]. destruct r as [x|g [x|]]; try (intros H; exact H).
  cbn. destruct (remove_txtpp f); [|intros H; exact H]. intros H. apply in_drop_path in H. apply H.
Qed.

Lemma static_loop_safe orc cfg base D w0 fuel sched s :
  cfg_mode cfg = Build -> static_ok D w0 -> loop_stale_safe orc cfg base D fuel sched s w0.
Proof.
  intros Hmd [HD HS].
  set (J := fun (D' : list path) (w : world) =>
              (forall p, In p D' -> In p D) /\
              (forall g, is_txtpp_file g = true -> fs_get (w_fs w) g = fs_get (w_fs w0) g)).
  apply (loop_safe_intro orc cfg base (list path) stale_upd stale_safe J).
  - intros D' t w [Hsub Hsrc]. destruct t as [d|f first]; [exact Logic.I|]. cbn [stale_safe].
    destruct (remove_txtpp f) as [out|] eqn:Ho; [|exact Logic.I].
    pose proof (remove_txtpp_is_txtpp f out Ho) as Ht. split.
    + intros Hin. rewrite (HD f (Hsub f Hin)) in Ht. discriminate.
    + intros raw Er. assert (E0 : fs_get (w_fs w) f = fs_get (w_fs w0) f) by (apply Hsrc; exact Ht).
      assert (Er0 : read_file (w_fs w0) f = Some raw) by (unfold read_file in *; rewrite <- E0; exact Er).
      destruct (HS f out raw Ho Er0) as (Hn & Hp & Hw).
      rewrite (items_of_same Build w0 w f E0), (writes_of_same Build w0 w f E0).
      split; [exact Hn|]. split; [|exact Hw]. intros p Hp1 Hp2. apply (Hp first p Hp1). apply Hsub. exact Hp2.
  - intros D' t w r w' [Hsub Hsrc] Hex. split.
    + intros p Hp. apply Hsub. eapply stale_upd_sub; eauto.
    + intros g Hg. rewrite <- (Hsrc g Hg). destruct t as [d|f first].
      * cbn in Hex. inversion Hex; subst. reflexivity.
      * rewrite exec_task_pp in Hex. rewrite Hmd in Hex. cbv zeta in Hex.
        destruct (res_of_tag f _) as [r'|]; [|discriminate]. inversion Hex; subst r' w'. clear Hex.
        destruct (read_file (w_fs w) f) as [raw|] eqn:Er.
        2:{ rewrite (pp_run_unreadable _ _ _ _ _ _ w Er). reflexivity. }
        apply pass_footprint. intros Hin. unfold writes_of in Hin.
        destruct (remove_txtpp f) as [out|] eqn:Ho; [|destruct Hin].
        pose proof (remove_txtpp_is_txtpp f out Ho) as Ht.
        assert (E0 : fs_get (w_fs w) f = fs_get (w_fs w0) f) by (apply Hsrc; exact Ht).
        assert (Er0 : read_file (w_fs w0) f = Some raw) by (unfold read_file in *; rewrite <- E0; exact Er).
        destruct (HS f out raw Ho Er0) as (_ & _ & Hw).
        rewrite (Hw g) in Hg; [discriminate|]. rewrite <- (writes_of_same Build w0 w f E0).
        unfold writes_of. rewrite Ho. exact Hin.
  - split; [intros p Hp; exact Hp|reflexivity].
Qed.

(* (a) with the static condition on the first initial world *)
Theorem stale_outputs_irrelevant_static orc cfg fuel sched D w1 w2 :
  cfg_mode cfg = Build ->
  stale_rel D w1 w2 ->
  ~ In (lex_normalize (cfg_base cfg)) D ->
  Forall (input_safe D (lex_normalize (cfg_base cfg))) (cfg_inputs cfg) ->
  static_ok D w1 ->
  let x1 := txtpp_run orc cfg fuel sched w1 in
  let x2 := txtpp_run orc cfg fuel sched w2 in
  verdict_of x1 = verdict_of x2 /\ trace_of x1 = trace_of x2 /\ state_of x1 = state_of x2 /\
  stale_rel (stale_after D (trace_of x1)) (world_of x1) (world_of x2).
Proof.
  intros Hmd HR Hb Hin HS. apply stale_outputs_irrelevant; try assumption.
  unfold run_stale_safe. destruct (os_resolve (w_fs w1) (cfg_base cfg)) as [base|]; [|exact I].
  destruct (resolve_inputs (w_fs w1) base (cfg_inputs cfg) [] []) as [[files dirs]|]; [|exact I].
  apply static_loop_safe; assumption.
Qed.

(* ---- building related worlds ---- *)
Lemma stale_rel_refl D w : raw_ok w -> stale_rel D w w.
Proof. intros H. split; try assumption; [|reflexivity]. split; reflexivity. Qed.
Lemma stale_rel_mono D D' w1 w2 : (forall p, In p D -> In p D') -> stale_rel D w1 w2 -> stale_rel D' w1 w2.
Proof. intros Hs [A N1 N2 S]. split; try assumption. eapply wR_mono; eauto. Qed.
Lemma stale_rel_trans D w1 w2 w3 : stale_rel D w1 w2 -> stale_rel D w2 w3 -> stale_rel D w1 w3.
Proof.
  intros [[A1 B1] N1 _ S1] [[A2 B2] _ N3 S2]. split; try assumption; [|congruence].
  split; intros p; [intros Hp; rewrite (A1 p Hp); apply A2; exact Hp|rewrite B1; apply B2].
Qed.
(* a regular file that is not a `.txtpp` file may be created, replaced or deleted *)
Lemma stale_rel_put f l l' out (n : option str) :
  raw_ok (mkW f l) -> is_dir f out = false -> is_txtpp_file out = false ->
  stale_rel [out] (mkW f l) (mkW (match n with Some c => fs_put f out (File c) | None => fs_del f out end) l').
Proof.
  intros ND Hd Ht. assert (Hq : out <> []) by (intros ->; rewrite is_dir_nil in Hd; discriminate).
  unfold raw_ok in *. cbn [w_fs] in *.
  assert (Hk : forall nd, In (out, nd) f -> scan_keep (out, nd) = false) by (apply not_kept; assumption).
  split; cbn [w_fs].
  - split; cbn [w_fs].
    + intros p Hp. apply in_paths_false in Hp. assert (out <> p) by (intros ->; apply Hp; left; reflexivity).
      destruct n; [rewrite fs_get_put_other by assumption|rewrite fs_get_del_other by assumption]; reflexivity.
    + intros p. destruct n; [rewrite is_dir_put_file by exact Hq|rewrite is_dir_del by exact Hq];
        (destruct (path_eqb out p) eqn:E; [apply path_eqb_eq in E; subst p; exact Hd|reflexivity]).
  - exact ND.
  - destruct n; [apply nodup_keys_put|apply nodup_keys_del]; exact ND.
  - destruct n as [c|].
    + unfold fs_put, scanpart. cbn [filter].
      replace (scan_keep (out, File c)) with false by (unfold scan_keep; cbn [fst snd]; symmetry; exact Ht).
      symmetry. apply scanpart_del. exact Hk.
    + symmetry. apply scanpart_del. exact Hk.
Qed.

(* ---- non-vacuity: the tree `d/`, `d/a.txtpp` = "hi\n" of RunFacts.ex_fs, once without and once with a stale `d/a` = "old";
   building `d` recursively gives VOk in both, and afterwards nothing is stale any more ---- *)
Definition st_out : path := [[100]; [97]].
Definition st_cfg : config := mkCfg [] [[100]] true 1 Build false.
Definition st_w1 : world := ex_w.
Definition st_w2 : world := mkW (fs_put ex_fs st_out (File [111; 108; 100])) [].

Lemma st_rel : stale_rel [st_out] st_w1 st_w2.
Proof.
  apply (stale_rel_put ex_fs [] [] st_out (Some [111; 108; 100])).
  - unfold raw_ok. cbn. repeat constructor; cbn; intuition discriminate.
  - vm_compute. reflexivity.
  - vm_compute. reflexivity.
Qed.

Lemma st_static : static_ok [st_out] st_w1.
Proof.
  split.
  - intros p [<-|[]]. vm_compute. reflexivity.
  - intros f out raw Ho Er.
    assert (Ef : f = [[100]; [97; 46; 116; 120; 116; 112; 112]]).
    { unfold read_file, st_w1, ex_w, ex_fs in Er. cbn [w_fs] in Er.
      destruct f as [|x f']; [cbn in Er; discriminate|]. cbn [fs_get] in Er.
      destruct (path_eqb [[100]] (x :: f')) eqn:E1; [discriminate|].
      destruct (path_eqb [[100]; [97; 46; 116; 120; 116; 112; 112]] (x :: f')) eqn:E2; [|discriminate].
      apply path_eqb_eq in E2. symmetry. exact E2. }
    subst f. vm_compute in Ho. inversion Ho; subst out. split; [|split].
    + repeat constructor.
    + intros first p Hp. vm_compute in Hp. destruct Hp.
    + intros q Hq. vm_compute in Hq. destruct Hq as [<-|[<-|[]]]; vm_compute; reflexivity.
Qed.

Example stale_outputs_irrelevant_nonvacuous :
  let x1 := txtpp_run cx_orc st_cfg 5 [] st_w1 in
  let x2 := txtpp_run cx_orc st_cfg 5 [] st_w2 in
  verdict_of x1 = VOk /\ verdict_of x2 = VOk /\ trace_of x1 = trace_of x2 /\
  stale_after [st_out] (trace_of x1) = [] /\ w_eq (world_of x1) (world_of x2).
Proof.
  assert (Hb : ~ In (lex_normalize (cfg_base st_cfg)) [st_out]) by (vm_compute; intuition discriminate).
  assert (Hi : Forall (input_safe [st_out] (lex_normalize (cfg_base st_cfg))) (cfg_inputs st_cfg)).
  { constructor; [|constructor]. split; [vm_compute; intuition discriminate|].
    intros c Hc. vm_compute in Hc. destruct Hc as [<-|[]]. vm_compute. intuition discriminate. }
  destruct (stale_outputs_irrelevant_static cx_orc st_cfg 5 [] [st_out] st_w1 st_w2 eq_refl st_rel Hb Hi st_static)
    as (Hv & Ht & _ & HR).
  cbv zeta.
  assert (E1 : verdict_of (txtpp_run cx_orc st_cfg 5 [] st_w1) = VOk) by (vm_compute; reflexivity).
  assert (Es : stale_after [st_out] (trace_of (txtpp_run cx_orc st_cfg 5 [] st_w1)) = []) by (vm_compute; reflexivity).
  split; [exact E1|]. split; [rewrite <- Hv; exact E1|]. split; [exact Ht|]. split; [exact Es|].
  rewrite Es in HR. apply wR_noX. destruct (sr_agree _ _ _ HR) as [A B]. split; [|exact B].
  intros p _. apply A. reflexivity.
Qed.

(* ---- reading the conclusion: what is still stale at the end ---- *)
(* a path of D is still stale after a trace iff it is not the output of a source of which some pass reported success *)
Lemma in_stale_after tr : forall D p,
  In p (stale_after D tr) <->
  In p D /\ forall f b g x out, In (TPp f b, RPp g (Some x)) tr -> remove_txtpp f = Some out -> p <> out.
Proof.
  unfold stale_after, upd_trace. induction tr as [|[t r] tr IH]; intros D p; cbn [fold_left fst snd].
  - split; [intros H; split; [exact H|intros f b g x out []]|intros [H _]; exact H].
  - rewrite IH. split.
    + intros [H1 H2]. split; [eapply stale_upd_sub; eauto|].
      intros f b g x out [Hin|Hin] Ho; [|apply (H2 f b g x out Hin Ho)].
      inversion Hin; subst t r. cbn [stale_upd] in H1. rewrite Ho in H1. apply in_drop_path in H1. apply H1.
    + intros [H1 H2]. split; [|intros f b g x out Hin Ho; apply (H2 f b g x out (or_intror Hin) Ho)].
      destruct t as [d|f b]; [exact H1|]. destruct r as [y|g [x|]]; try exact H1.
      cbn [stale_upd]. destruct (remove_txtpp f) as [out|] eqn:Ho; [|exact H1].
      apply in_drop_path. split; [exact H1|]. apply (H2 f b g x out (or_introl eq_refl) Ho).
Qed.

(* the two final worlds hold the same node at every path that was not stale initially, and at the output of every
   source of which some pass reported success *)
Corollary stale_rel_after_agree D tr w1 w2 p :
  stale_rel (stale_after D tr) w1 w2 ->
  (~ In p D \/ exists f b g x, In (TPp f b, RPp g (Some x)) tr /\ remove_txtpp f = Some p) ->
  fs_get (w_fs w1) p = fs_get (w_fs w2) p.
Proof.
  intros HR Hp. apply (proj1 (sr_agree _ _ _ HR)). apply in_paths_false. intros Hin.
  apply in_stale_after in Hin. destruct Hin as [H1 H2].
  destruct Hp as [Hp|(f & b & g & x & Hin & Ho)]; [exact (Hp H1)|].
  apply (H2 f b g x p Hin Ho). reflexivity.
Qed.
