(* Pp.v — the per-file preprocessor machine (core/execute/pp/mod.rs).
   Each definition names the Rust lines it mirrors.  Model only. *)
Require Import Txtpp.Str Txtpp.Consts Txtpp.Grammar Txtpp.Tags Txtpp.Path Txtpp.Fs Txtpp.Sink.

(* the command oracle: command, working directory, value of TXTPP_FILE
   -> Some stdout (status 0) | None (spawn failure or non-zero status) *)
Definition oracle := str -> path -> str -> option str.

(* PpMode, pp/mod.rs:398-411 *)
Inductive ppmode := PExec | PFirst | PCollect (deps : list path).
Definition is_execute (m : ppmode) : bool := match m with PCollect _ => false | _ => true end.

Record pst := mkP {
  cur : option directive;     (* cur_directive *)
  flag : bool;                (* add_newline_before_next_output *)
  pmode : ppmode;
  tg : tags;
  snk : sink;
  wld : world }.

Definition set_cur (s : pst) (c : option directive) := mkP c (flag s) (pmode s) (tg s) (snk s) (wld s).
Definition set_flag (s : pst) (b : bool) := mkP (cur s) b (pmode s) (tg s) (snk s) (wld s).
Definition set_pmode (s : pst) (m : ppmode) := mkP (cur s) (flag s) m (tg s) (snk s) (wld s).
Definition set_tg (s : pst) (t : tags) := mkP (cur s) (flag s) (pmode s) t (snk s) (wld s).
Definition set_io (s : pst) (k : sink) (w : world) := mkP (cur s) (flag s) (pmode s) (tg s) k w.
Definition set_wld (s : pst) (w : world) := mkP (cur s) (flag s) (pmode s) (tg s) (snk s) w.

Inductive pp_outcome :=
| PpOk (w : world)
| PpHasDeps (deps : list path) (w : world)
| PpErr (k : errkind) (w : world)
| PpPanic.

(* result of one step of the loop *)
Inductive step_res := StOk (s : pst) | StErr (k : errkind) (w : world) | StPanic.

(* Pp::format_directive_output, pp/mod.rs:347-361 *)
Definition format_output (le ws : str) (ls : list str) (trailing : bool) : str :=
  join le (map (fun l => ws ++ l) ls) ++ (if trailing then le else []).

Section PP.
Variable orc : oracle.
Variable md : mode.
Variable src : path.        (* canonical path of the source *)
Variable base : path.       (* canonical base directory *)
Variable le : str.          (* IOCtx::line_ending *)

Definition work_dir : path := parent src.
Definition input_display : str := display_from_base base src.   (* IOCtx::input_path *)

(* pp/mod.rs:114-122: write a chunk, preceded by the pending line ending *)
Definition emit (s : pst) (to_write : option str) (has_tail : bool) : step_res :=
  if is_execute (pmode s) then
    match to_write with
    | None => StOk s
    | Some x =>
      let r1 := if flag s then sink_write (snk s) (wld s) le else inl (snk s, wld s) in
      match r1 with
      | inr k => StErr k (wld s)
      | inl (k1, w1) =>
        match sink_write k1 w1 x with
        | inr k => StErr k w1
        | inl (k2, w2) => StOk (set_flag (set_io s k2 w2) (negb has_tail))
        end
      end
    end
  else StOk s.

(* Pp::execute_directive_temp, pp/mod.rs:323-345 *)
Definition exec_temp (args : list str) (is_clean : bool) (w : world) : world + errkind :=
  match args with
  | [] => inr KDirective
  | export :: rest =>
    if is_txtpp_file (lex_components export) then inr KDirective
    else if is_clean then remove_temp w (lex_join work_dir export)
    else write_temp w (lex_join work_dir export) (format_output le [] rest false)
  end.

(* result of executing a directive: raw output *)
Inductive xres := XOut (o : option str) (s : pst) | XErr (k : errkind) (w : world).

(* Pp::execute_in_collect_deps_mode, pp/mod.rs:281-321.
   inl s' = the directive is consumed (dependency recorded or skipped);
   inr s' = execute it normally *)
Definition collect_deps (d : directive) (s : pst) : (pst + pst) + errkind :=
  match pmode s with
  | PExec => inl (inr s)
  | _ =>
    let skip_or_exec := match pmode s with PCollect _ => inl (inl s) | _ => inl (inr s) end in
    match d_ty d with
    | DInclude | DAfter =>
      let arg := hd [] (d_args d) in
      match get_txtpp_file (w_fs (wld s)) (lex_join work_dir arg) with
      | Some x =>
        match os_resolve (w_fs (wld s)) x with
        | None => inr KDirective
        | Some q =>
          match pmode s with
          | PCollect deps => inl (inl (set_pmode s (PCollect (deps ++ [q]))))
          | _ => inl (inl (set_pmode s (PCollect [q])))
          end
        end
      | None => skip_or_exec
      end
    | _ => skip_or_exec
    end
  end.

(* Pp::execute_directive, pp/mod.rs:209-270 *)
Definition exec_directive (d : directive) (s : pst) : xres :=
  match md with
  | Clean =>
    (* execute_in_clean_mode: only temp; errors ignored *)
    match d_ty d with
    | DTemp => match exec_temp (d_args d) true (wld s) with
               | inl w' => XOut None (set_wld s w')
               | inr _ => XOut None s
               end
    | _ => XOut None s
    end
  | _ =>
    match collect_deps d s with
    | inr k => XErr k (wld s)
    | inl (inl s') => XOut None s'
    | inl (inr s') =>
      match d_ty d with
      | DEmpty | DAfter => XOut None s'
      | DRun =>
        let command := join [SPb] (d_args d) in
        let w1 := w_emit (wld s') (ERun command work_dir input_display) in
        match orc command work_dir input_display with
        | Some out => XOut (Some out) (set_wld s' w1)
        | None => XErr KDirective w1
        end
      | DInclude =>
        let arg := hd [] (d_args d) in
        match os_resolve (w_fs (wld s')) (lex_join work_dir arg) with
        | None => XErr KDirective (wld s')
        | Some q =>
          match read_file (w_fs (wld s')) q with
          | Some c => if utf8_valid c then XOut (Some c) s' else XErr KDirective (wld s')
          | None => XErr KDirective (wld s')
          end
        end
      | DTemp =>
        match exec_temp (d_args d) false (wld s') with
        | inl w' => XOut None (set_wld s' w')
        | inr k => XErr k (wld s')
        end
      | DTag =>
        match create (tg s') (hd [] (d_args d)) with
        | Some t' => XOut None (set_tg s' t')
        | None => XErr KDirective (wld s')
        end
      | DWrite => XOut (Some (join [LFb] (d_args d))) s'
      end
    end
  end.

(* pp/mod.rs:83-111: execute, divert into a listening tag or format, then write *)
Definition run_directive (d : directive) (has_tail : bool) (s : pst) : step_res :=
  match exec_directive d s with
  | XErr k w => StErr k w
  | XOut None s' => emit s' None has_tail
  | XOut (Some raw) s' =>
    match try_store (tg s') raw with
    | Some t' => emit (set_tg s' t') None has_tail
    | None => emit s' (Some (format_output le (d_ws d) (lines raw) (ends_with_lf raw))) has_tail
    end
  end.

(* iterate_directive with cur_directive = None (pp/mod.rs:170-187) followed by
   the rest of the loop body for that line *)
Definition step_fresh (line : str) (s : pst) : step_res :=
  let as_text (l : str) :=
    if is_execute (pmode s) then
      match inject (tg s) l le with
      | None => StPanic
      | Some (l', t') => emit (set_tg s t') (Some l') false
      end
    else emit s (Some l) false in
  match detect_from line with
  | Some d =>
    if multi (d_ty d) && (match d_prefix d with [] => true | _ => false end) then
      match md with
      | Clean => as_text []            (* ignore_err_if_cleaning: None("") *)
      | _ => StErr KDirective (wld s)
      end
    else StOk (set_cur s (Some d))     (* LineTaken *)
  | None => as_text line
  end.

(* one source line (pp/mod.rs:159-206 and the loop body) *)
Definition step_line (line : str) (s : pst) : step_res :=
  match cur s with
  | None => step_fresh line s
  | Some d =>
    match add_line d line with
    | AddOk d' => StOk (set_cur s (Some d'))
    | AddPanic => StPanic
    | AddStop =>
      (* Execute(d, Some(line)): run d with a tail, then re-read the line *)
      match run_directive d true (set_cur s None) with
      | StOk s' => step_fresh line s'
      | r => r
      end
    end
  end.

Fixpoint run_lines (ls : list str) (s : pst) : step_res :=
  match ls with
  | [] => StOk s
  | l :: r => match step_line l s with
              | StOk s' => run_lines r s'
              | e => e
              end
  end.

(* end of input (pp/mod.rs:161-166) and the epilogue (pp/mod.rs:125-143) *)
Definition finish (trailing_newline : bool) (s : pst) : pp_outcome :=
  let after_eof :=
    match cur s with
    | Some d => run_directive d false (set_cur s None)
    | None => StOk s
    end in
  match after_eof with
  | StPanic => PpPanic
  | StErr k w => PpErr k w
  | StOk s1 =>
    match pmode s1 with
    | PCollect deps => PpHasDeps deps (wld s1)
    | _ =>
      if has_tags (tg s1) && negb (mode_eqb md Clean) then PpErr KDirective (wld s1)
      else
        let r := if flag s1 && trailing_newline then sink_write (snk s1) (wld s1) le
                 else inl (snk s1, wld s1) in
        match r with
        | inr k => PpErr k (wld s1)
        | inl (k1, w1) =>
          match sink_done k1 w1 with
          | inl w2 => PpOk w2
          | inr k => PpErr k w1
          end
        end
    end
  end.

End PP.

(* line_ending.rs:41-62 on the bytes of the first line (LF included) *)
Definition detect_le (raw : str) : str :=
  match split_on LFb raw with
  | first :: _ :: _ =>            (* there is an LF *)
    match rev first with
    | c :: _ => if c =? CRb then c_crlf else c_lf
    | [] => c_lf
    end
  | _ => c_os_line_ending
  end.

Fixpoint take_valid (ls : list str) : list str * bool :=
  match ls with
  | [] => ([], false)
  | l :: r => if utf8_valid l then let '(g, b) := take_valid r in (l :: g, b) else ([], true)
  end.

(* Pp::run + IOCtx::new (io_context.rs:27-78) + run_internal *)
Definition pp_run (orc : oracle) (md : mode) (base src : path) (first_pass trailing_newline : bool)
  (w : world) : pp_outcome :=
  match read_file (w_fs w) src with
  | None => PpErr KOpen w
  | Some raw =>
    let le := detect_le raw in
    match remove_txtpp src with
    | None => PpErr KOpen w
    | Some out =>
      if is_txtpp_file out then PpErr KOpen w else
      match sink_new md w out with
      | inr k => PpErr k w
      | inl (k0, w0) =>
        let '(ls, bad) := take_valid (lines raw) in
        let s0 := mkP None false (if first_pass then PFirst else PExec) tags_new k0 w0 in
        match run_lines orc md src base le ls s0 with
        | StPanic => PpPanic
        | StErr k w' => PpErr k w'
        | StOk s1 =>
          if bad then PpErr KRead (wld s1)
          else finish orc md src base le trailing_newline s1
        end
      end
    end
  end.
