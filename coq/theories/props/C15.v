(* C15 — Directive recognition and continuation follow the documented grammar.
   This file contains only the property theorems, each closed by `exact`,
   pinned by `Check`, with Print Assumptions beneath. *)
Require Import Txtpp.Str Txtpp.Consts Txtpp.Grammar Txtpp.proofs.GrammarFacts.

Theorem single_line_types_never_continue :
  forall d l, multi (d_ty d) = false -> add_line d l = AddStop.
Proof. exact add_line_single_stop. Qed.
Check single_line_types_never_continue :
  forall d l, multi (d_ty d) = false -> add_line d l = AddStop.
Print Assumptions single_line_types_never_continue.
