(* Path.v — file names, extensions and the TxtppPath trait (fs/path/mod.rs:46-123),
   as Rust's std::path does it on Unix (probed on rustc 1.95):
   the extension of a file name is what follows its last dot unless the part
   before that dot is empty; `..` has no file name.  Model only. *)
Require Import Txtpp.Str Txtpp.Consts.

Definition name := str.
(* canonical absolute path: components from the (project) root, no `.`/`..` *)
Definition path := list name.
(* lexical path: components with `.` and empty components removed, `..` kept *)
Definition lexpath := list name.

Definition DOT : byte := 46.
Definition SLASH : byte := 47.
Definition dotdot : name := [DOT; DOT].
Definition TXTPP_EXT : str := c_txtpp_ext.

Fixpoint path_eqb (a b : path) : bool :=
  match a, b with
  | [], [] => true
  | x :: a', y :: b' => str_eqb x y && path_eqb a' b'
  | _, _ => false
  end.

(* index of the last dot, scanning from the left *)
Fixpoint last_dot (s : str) (i : nat) (acc : option nat) : option nat :=
  match s with
  | [] => acc
  | c :: r => last_dot r (S i) (if c =? DOT then Some i else acc)
  end.

(* (stem, extension) of a file name; std rsplit_file_at_dot *)
Definition split_ext (n : name) : str * option str :=
  if str_eqb n dotdot then (n, None) else
  match last_dot n 0%nat None with
  | None => (n, None)
  | Some O => (n, None)
  | Some i => (firstn i n, Some (skipn (S i) n))
  end.

Definition is_normal (n : name) : bool := negb (str_eqb n dotdot).

(* Path::extension of the last component *)
Definition lex_extension (p : lexpath) : option str :=
  match rev p with
  | n :: _ => if is_normal n then snd (split_ext n) else None
  | [] => None
  end.

(* PathBuf::set_extension: no file name -> unchanged *)
Definition lex_set_extension (p : lexpath) (ext : str) : lexpath :=
  match rev p with
  | n :: r =>
    if is_normal n then
      let stem := fst (split_ext n) in
      rev r ++ [match ext with [] => stem | _ => stem ++ [DOT] ++ ext end]
    else p
  | [] => p
  end.

(* file_name + "." + ext through set_file_name; a path without file name is left alone *)
Definition lex_append_ext (p : lexpath) (ext : str) : lexpath :=
  match rev p with
  | n :: r => if is_normal n then rev r ++ [n ++ [DOT] ++ ext] else p
  | [] => p
  end.

(* fs/path/mod.rs:46-62 *)
Definition is_txtpp_file (p : lexpath) : bool :=
  match lex_extension p with
  | Some ext =>
    if str_eqb ext TXTPP_EXT then true
    else match lex_extension (lex_set_extension p []) with
         | Some e2 => str_eqb e2 TXTPP_EXT
         | None => false
         end
  | None => false
  end.

(* the stem path (the source path without its `txtpp` extension and without its own extension) must not
   end in `.`: for `..txtpp` the derived output `dir/.` has no file name, for `..txtpp.md` the derived
   output is `<parent>/dir.md` (set_file_name on `dir/.`), outside the source's directory;
   IOCtx::new (fs/io_context.rs) refuses both (OpenFile) before anything is created *)
Definition stem_ok (p : lexpath) : bool :=
  match rev p with
  | c :: _ => negb (str_eqb c [DOT])
  | [] => true
  end.

(* fs/path/mod.rs:105-123 together with the refusal in IOCtx::new.  None = Err *)
Definition remove_txtpp (p : lexpath) : option lexpath :=
  if negb (is_txtpp_file p) then None else
  let p1 := lex_set_extension p [] in
  match lex_extension p1 with
  | Some e =>
    if str_eqb e TXTPP_EXT then
      let p2 := lex_set_extension p1 [] in
      if negb (stem_ok p2) then None else
      match lex_extension p with
      | Some [] => Some p2
      | Some self_ext => Some (lex_append_ext p2 self_ext)     (* appended, not set: the stem keeps its own dots *)
      | None => None
      end
    else if stem_ok p1 then Some p1 else None
  | None => if stem_ok p1 then Some p1 else None
  end.

(* the ordered candidates get_txtpp_file probes (fs/path/mod.rs:64-103);
   empty when the path is itself a txtpp path *)
Definition txtpp_candidates (p : lexpath) : list lexpath :=
  if is_txtpp_file p then [] else
  match lex_extension p with
  | Some ext =>
    (* `p.set_extension("")` in the code "restores" the path it has just extended with `.txtpp`,
       i.e. it strips that `txtpp` again, and then replaces the last extension by `txtpp.ext` *)
    let c1 := lex_set_extension p (ext ++ [DOT] ++ TXTPP_EXT) in
    [c1; lex_set_extension (lex_set_extension c1 []) (TXTPP_EXT ++ [DOT] ++ ext)]
  | None => [lex_set_extension p TXTPP_EXT]
  end.

(* components of a user-supplied path string: split at '/', drop "" and "." *)
Definition is_dot (n : name) : bool := match n with [c] => c =? DOT | _ => false end.
Definition lex_components (s : str) : lexpath :=
  filter (fun n => negb (match n with [] => true | _ => false end) && negb (is_dot n)) (split_on SLASH s).
Definition is_absolute (s : str) : bool := match s with c :: _ => c =? SLASH | [] => false end.

(* Path::join for an absolute self *)
Definition lex_join (cwd : path) (arg : str) : lexpath :=
  if is_absolute arg then lex_components arg else cwd ++ lex_components arg.

Definition parent (p : path) : path := removelast p.

(* is `b` a prefix of `p`, and the remainder *)
Fixpoint strip_prefix (b p : path) : option path :=
  match b, p with
  | [], _ => Some p
  | x :: b', y :: p' => if str_eqb x y then strip_prefix b' p' else None
  | _ :: _, [] => None
  end.

(* the real root of the project tree is not part of the model: absolute path
   strings start with this placeholder, which the harness substitutes *)
Definition ROOT_MARK : str := [64; 82; 64]. (* "@R@" *)
Definition abs_string (p : path) : str := ROOT_MARK ++ concat (map (fun n => SLASH :: n) p).
Definition rel_string (p : path) : str := join [SLASH] p.

(* abs_path.rs:170-185 path_string_from_base (Unix) *)
Definition display_from_base (base p : path) : str :=
  if path_eqb base p then abs_string p
  else match strip_prefix base p with
       | Some r => rel_string r
       | None => abs_string p
       end.
