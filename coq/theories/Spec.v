(* Spec.v — the README semantics as a function of a different shape from the
   machine of Pp.v:   parse  ->  one chunk per item  ->  splice.
   * parse (README "Syntax"): group the lines into ordinary text lines and
     directives with their maximal continuation; a directive knows whether a
     line follows it (`followed`).
   * item_output (README "Directive Specification" / "Execution"): the text an
     item contributes: a text line after tag substitution, a directive's
     output indented and re-joined, or nothing.
   * splice (README "Output Specification"): a text chunk is followed by a line
     ending unless it is last and the trailing-newline option is off; a
     directive's output is spliced verbatim, so a missing final newline joins
     it to what follows; a directive at the very end of the file behaves like a
     text chunk with respect to the final line ending.
   Model only. *)
Require Import Txtpp.Str Txtpp.Consts Txtpp.Grammar Txtpp.Tags Txtpp.Path Txtpp.Fs Txtpp.Sink Txtpp.Pp.

Inductive item :=
| IText (l : str)
| IDir (d : directive) (followed : bool)
| IBad                                   (* multi-line directive without prefix *)
| ISlicePanic.                           (* add_line would slice inside a character (never on UTF-8 text) *)

Definition needs_prefix_err (d : directive) : bool :=
  multi (d_ty d) && (match d_prefix d with [] => true | _ => false end).

(* `clean`: in clean mode the prefix error is ignored and the line counts as an empty text line *)
Fixpoint parse (clean : bool) (cur : option directive) (ls : list str) : list item :=
  match ls with
  | [] => match cur with Some d => [IDir d false] | None => [] end
  | l :: r =>
    let fresh :=
      match detect_from l with
      | Some d => if needs_prefix_err d
                  then (if clean then IText [] :: parse clean None r else [IBad])
                  else parse clean (Some d) r
      | None => IText l :: parse clean None r
      end in
    match cur with
    | None => fresh
    | Some d =>
      match add_line d l with
      | AddOk d' => parse clean (Some d') r
      | AddStop => IDir d true :: fresh
      | AddPanic => [ISlicePanic]
      end
    end
  end.

(* a chunk of output and whether it is line-terminated (a line ending follows it unless it is last) *)
Definition chunk := (str * bool)%type.

Fixpoint splice (le : str) (trailing : bool) (cs : list chunk) : str :=
  match cs with
  | [] => []
  | [(c, t)] => c ++ (if t && trailing then le else [])
  | (c, t) :: r => c ++ (if t then le else []) ++ splice le trailing r
  end.

Inductive ires := IOut (o : option str) (s : pst) | IErr (k : errkind) (w : world) | IPanic.

Section SPEC.
Variable orc : oracle.
Variable md : mode.
Variable src : path.
Variable base : path.
Variable le : str.

(* what an item contributes; nothing is written to the output here *)
Definition item_output (it : item) (s : pst) : ires :=
  match it with
  | IText l =>
    if is_execute (pmode s) then
      match inject (tg s) l le with
      | None => IPanic
      | Some (l', t') => IOut (Some l') (set_tg s t')
      end
    else IOut (Some l) s
  | IBad => IErr KDirective (wld s)
  | ISlicePanic => IPanic
  | IDir d _ =>
    match exec_directive orc md src base le d s with
    | XErr k w => IErr k w
    | XOut None s' => IOut None s'
    | XOut (Some raw) s' =>
      match try_store (tg s') raw with
      | Some t' => IOut None (set_tg s' t')
      | None => IOut (Some (format_output le (d_ws d) (lines raw) (ends_with_lf raw))) s'
      end
    end
  end.

Definition item_tail (it : item) : bool :=
  match it with IDir _ followed => followed | _ => false end.

(* execute the items in order; the ghost list records the chunks that were written *)
Fixpoint run_items (its : list item) (s : pst) : step_res * list chunk :=
  match its with
  | [] => (StOk s, [])
  | it :: r =>
    match item_output it s with
    | IPanic => (StPanic, [])
    | IErr k w => (StErr k w, [])
    | IOut o s1 =>
      match emit le s1 o (item_tail it) with
      | StOk s2 =>
        let '(res, cs) := run_items r s2 in
        (res, match o with
              | Some x => if is_execute (pmode s1) then (x, negb (item_tail it)) :: cs else cs
              | None => cs
              end)
      | e => (e, [])
      end
    end
  end.

(* the epilogue of the file: pp/mod.rs:125-143 *)
Definition epilogue (trailing_newline : bool) (s1 : pst) : pp_outcome :=
  match pmode s1 with
  | PCollect deps => PpHasDeps deps (wld s1)
  | _ =>
    if has_tags (tg s1) && negb (mode_eqb md Clean) then PpErr KDirective (wld s1)
    else
      let r := if flag s1 && trailing_newline then sink_write (snk s1) (wld s1) le
               else inl (snk s1, wld s1) in
      match r with
      | inr k => PpErr k (wld s1)
      | inl (k1, w1) =>
        match sink_done k1 w1 with
        | inl w2 => PpOk w2
        | inr k => PpErr k w1
        end
      end
  end.

Definition spec_file (trailing_newline : bool) (ls : list str) (s0 : pst) : pp_outcome :=
  match fst (run_items (parse (mode_eqb md Clean) None ls) s0) with
  | StPanic => PpPanic
  | StErr k w => PpErr k w
  | StOk s1 => epilogue trailing_newline s1
  end.

End SPEC.
