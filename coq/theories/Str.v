(* Str.v — byte strings and the Rust `str` operations txtpp uses.
   A Rust `str` is its UTF-8 byte sequence; every find / starts_with / len /
   slice in the code is a byte operation, so bytes are the faithful carrier.
   Model only: no proofs in this file. *)
From Coq Require Export List NArith Bool Arith.
Export ListNotations.
Open Scope N_scope.

Definition byte := N.
Definition str := list byte.

Definition LFb : byte := 10.
Definition CRb : byte := 13.
Definition SPb : byte := 32.

Fixpoint str_eqb (a b : str) : bool :=
  match a, b with
  | [], [] => true
  | x :: a', y :: b' => N.eqb x y && str_eqb a' b'
  | _, _ => false
  end.

(* str::starts_with *)
Fixpoint starts_with (p s : str) : bool :=
  match p, s with
  | [], _ => true
  | x :: p', y :: s' => N.eqb x y && starts_with p' s'
  | _ :: _, [] => false
  end.

(* str::find(&str): byte index of the first occurrence *)
Fixpoint find_sub (p s : str) : option nat :=
  if starts_with p s then Some 0%nat
  else match s with
       | [] => None
       | _ :: s' => option_map S (find_sub p s')
       end.

Definition ends_with_lf (s : str) : bool :=
  match rev s with c :: _ => N.eqb c LFb | [] => false end.

(* ---- char::is_whitespace as UTF-8 byte patterns ----
   U+0009-000D, U+0020, U+0085, U+00A0, U+1680, U+2000-200A, U+2028, U+2029,
   U+202F, U+205F, U+3000.  ws_len s = byte length of the white-space
   character at the head of s, 0 if the head is not white space. *)
Definition ascii_ws (b : byte) : bool := ((9 <=? b) && (b <=? 13)) || (b =? 32).

Definition e2_80_ws (c : byte) : bool :=
  ((128 <=? c) && (c <=? 138)) || (c =? 168) || (c =? 169) || (c =? 175).

Definition ws_len (s : str) : nat :=
  match s with
  | [] => 0%nat
  | b :: r =>
    if ascii_ws b then 1%nat
    else if b =? 194 then
      match r with c :: _ => if (c =? 133) || (c =? 160) then 2%nat else 0%nat | [] => 0%nat end
    else if b =? 225 then
      match r with c1 :: c2 :: _ => if (c1 =? 154) && (c2 =? 128) then 3%nat else 0%nat | _ => 0%nat end
    else if b =? 226 then
      match r with
      | c1 :: c2 :: _ =>
        if (c1 =? 128) && e2_80_ws c2 then 3%nat
        else if (c1 =? 129) && (c2 =? 159) then 3%nat else 0%nat
      | _ => 0%nat
      end
    else if b =? 227 then
      match r with c1 :: c2 :: _ => if (c1 =? 128) && (c2 =? 128) then 3%nat else 0%nat | _ => 0%nat end
    else 0%nat
  end.

(* number of leading bytes that belong to white-space characters;
   fuel = length s is always enough since every step consumes >= 1 byte *)
Fixpoint ws_prefix_len (fuel : nat) (s : str) : nat :=
  match fuel with
  | O => 0%nat
  | S f => match ws_len s with
           | O => 0%nat
           | n => (n + ws_prefix_len f (skipn n s))%nat
           end
  end.

(* line.find(|c| !c.is_whitespace()).unwrap_or(line.len()) and the two slices *)
Definition split_ws (s : str) : str * str :=
  let n := ws_prefix_len (length s) s in (firstn n s, skipn n s).

Definition trim_start (s : str) : str := snd (split_ws s).

(* the same table read from the end of the string (argument is reversed) *)
Definition ws_len_rev (r : str) : nat :=
  match r with
  | [] => 0%nat
  | b :: t =>
    if ascii_ws b then 1%nat
    else match t with
    | c :: t' =>
      if (c =? 194) && ((b =? 133) || (b =? 160)) then 2%nat
      else match t' with
      | d :: _ =>
        if (d =? 225) && (c =? 154) && (b =? 128) then 3%nat
        else if (d =? 226) && (c =? 128) && e2_80_ws b then 3%nat
        else if (d =? 226) && (c =? 129) && (b =? 159) then 3%nat
        else if (d =? 227) && (c =? 128) && (b =? 128) then 3%nat
        else 0%nat
      | [] => 0%nat
      end
    | [] => 0%nat
    end
  end.

Fixpoint drop_ws_rev (fuel : nat) (r : str) : str :=
  match fuel with
  | O => r
  | S f => match ws_len_rev r with
           | O => r
           | n => drop_ws_rev f (skipn n r)
           end
  end.

(* str::trim_end_matches(char::is_whitespace) *)
Definition trim_end (s : str) : str := rev (drop_ws_rev (length s) (rev s)).
(* str::trim_matches(char::is_whitespace) *)
Definition trim (s : str) : str := trim_end (trim_start s).

(* str::split_once(' ') *)
Fixpoint split_once_sp (s : str) : option (str * str) :=
  match s with
  | [] => None
  | c :: s' =>
    if c =? SPb then Some ([], s')
    else match split_once_sp s' with
         | Some (a, b) => Some (c :: a, b)
         | None => None
         end
  end.

(* slice::join *)
Fixpoint join (sep : str) (l : list str) : str :=
  match l with
  | [] => []
  | [x] => x
  | x :: r => x ++ sep ++ join sep r
  end.

(* split at every occurrence of c: n occurrences give n+1 pieces *)
Fixpoint split_on (c : byte) (s : str) : list str :=
  match s with
  | [] => [[]]
  | x :: r =>
    let ps := split_on c r in
    if x =? c then [] :: ps
    else match ps with
         | p :: ps' => (x :: p) :: ps'
         | [] => [[x]]
         end
  end.

Definition strip_cr (s : str) : str :=
  match rev s with
  | c :: r => if c =? CRb then rev r else s
  | [] => s
  end.

(* str::lines and BufRead::lines (probed on rustc 1.95): split after each LF,
   strip that LF and then one CR; a final unterminated piece is kept verbatim
   (its trailing CR included); the empty string has no lines. *)
Fixpoint lines_of_pieces (ps : list str) : list str :=
  match ps with
  | [] => []
  | [last] => match last with [] => [] | _ => [last] end
  | p :: r => strip_cr p :: lines_of_pieces r
  end.
Definition lines (s : str) : list str := lines_of_pieces (split_on LFb s).

Definition repeat_sp (n : nat) : str := repeat SPb n.

(* ---- UTF-8 validity (the check std::str::from_utf8 performs) ---- *)
Definition is_cont (b : byte) : bool := (128 <=? b) && (b <=? 191).

Fixpoint utf8_valid (s : str) : bool :=
  match s with
  | [] => true
  | b :: r =>
    if b <? 128 then utf8_valid r
    else if (194 <=? b) && (b <=? 223) then
      match r with c1 :: r1 => is_cont c1 && utf8_valid r1 | _ => false end
    else if (224 <=? b) && (b <=? 239) then
      match r with
      | c1 :: c2 :: r2 =>
        is_cont c1 && is_cont c2
        && (if b =? 224 then 160 <=? c1 else true)
        && (if b =? 237 then c1 <=? 159 else true)
        && utf8_valid r2
      | _ => false
      end
    else if (240 <=? b) && (b <=? 244) then
      match r with
      | c1 :: c2 :: c3 :: r3 =>
        is_cont c1 && is_cont c2 && is_cont c3
        && (if b =? 240 then 144 <=? c1 else true)
        && (if b =? 244 then c1 <=? 143 else true)
        && utf8_valid r3
      | _ => false
      end
    else false
  end.

(* s.is_char_boundary(n): what Rust's slicing asserts *)
Definition is_char_boundary (s : str) (n : nat) : bool :=
  if Nat.eqb n (length s) then true
  else match nth_error s n with
       | Some b => negb (is_cont b)
       | None => false
       end.

(* &s[n..] : None exactly where Rust panics *)
Definition slice_from (n : nat) (s : str) : option str :=
  if is_char_boundary s n then Some (skipn n s) else None.
(* &s[..n] *)
Definition slice_to (n : nat) (s : str) : option str :=
  if is_char_boundary s n then Some (firstn n s) else None.
