(* Run.v — the whole run: Txtpp::run (core/execute/mod.rs:66-239, 290-316),
   resolve_inputs (resolve_inputs.rs), scan_dir (scan_dir.rs), composed with the
   per-file machine of Pp.v.  Any in-flight task may complete next: the
   schedule is a list of choices into the canonically sorted in-flight set.
   A task executes atomically against the current world when it is chosen.
   Model only. *)
Require Import Txtpp.Str Txtpp.Consts Txtpp.Path Txtpp.Fs Txtpp.Sink Txtpp.Pp Txtpp.Dep Txtpp.Coord.

Record config := mkCfg {
  cfg_base : lexpath;          (* Config::base_dir joined with the process cwd *)
  cfg_inputs : list str;
  cfg_recursive : bool;
  cfg_threads : N;
  cfg_mode : mode;
  cfg_trailing : bool }.

Inductive verdict := VOk | VErr | VPanic | VFuel.

(* resolve_inputs.rs:5-31.  None = Err *)
Fixpoint resolve_inputs (f : fs) (base : path) (inputs : list str) (files dirs : list path)
  : option (list path * list path) :=
  match inputs with
  | [] => Some (files, dirs)
  | i :: r =>
    let ip := lex_join base i in
    if lex_is_dir f ip then
      match os_resolve f ip with
      | Some d => resolve_inputs f base r files (dirs ++ [d])
      | None => None
      end
    else if negb (is_txtpp_file ip) then
      match get_txtpp_file f ip with
      | Some x => match os_resolve f x with
                  | Some q => resolve_inputs f base r (files ++ [q]) dirs
                  | None => None
                  end
      | None => None
      end
    else
      match os_resolve f ip with
      | Some q => resolve_inputs f base r (files ++ [q]) dirs
      | None => None
      end
  end.

(* scan_dir.rs:5-32 *)
Definition scan_dir (f : fs) (d : path) (recursive : bool) : option (list path * list path) :=
  if is_dir f d then
    let cs := children f d in
    Some (flat_map (fun e => match snd e with
                             | File _ => if is_txtpp_file [fst e] then [d ++ [fst e]] else []
                             | Dir => []
                             end) cs,
          flat_map (fun e => match snd e with
                             | Dir => if recursive then [d ++ [fst e]] else []
                             | File _ => []
                             end) cs)
  else None.

Section RUN.
Variable orc : oracle.
Variable cfg : config.
Variable base : path.

(* what a worker does: execute against the current world, return the result and the new world.
   A panicking worker never sends: the coordinator would wait forever (C18). *)
Definition exec_task (t : task) (w : world) : option (result * world) :=
  match t with
  | TScan d => Some (RScan (scan_dir (w_fs w) d (cfg_recursive cfg)), w)
  | TPp f first =>
    match pp_run orc (cfg_mode cfg) base f first (cfg_trailing cfg) w with
    | PpOk w' => Some (RPp f (Some POk), w')
    | PpHasDeps deps w' => Some (RPp f (Some (PDeps deps)), w')
    | PpErr _ w' => Some (RPp f None, w')
    | PpPanic => None
    end
  end.

Definition pick (sched : list nat) (l : list task) : nat :=
  (hd 0%nat sched) mod (length l).

(* after the coordinator has returned an error, Drop joins the pool: the tasks
   still in flight run to completion, their results are discarded (mod.rs:290-316) *)
Fixpoint drain (fuel : nat) (sched : list nat) (l : list task) (w : world) (trace : list (task * result))
  : option (world * list (task * result)) :=
  match fuel with
  | O => Some (w, trace)
  | S fuel' =>
    match sort_tasks l with
    | [] => Some (w, trace)
    | t0 :: _ =>
      let sl := sort_tasks l in
      let k := pick sched sl in
      let t := nth k sl t0 in
      match exec_task t w with
      | None => None
      | Some (r, w') => drain fuel' (tl sched) (remove_nth k sl) w' (trace ++ [(t, r)])
      end
    end
  end.

(* returns the verdict, the final world, the completed tasks with what they sent back (in completion
   order) and the coordinator's final state (the last two are ghosts for the theorems) *)
Fixpoint run_loop (fuel : nat) (sched : list nat) (s : cstate) (w : world) (trace : list (task * result))
  : verdict * world * list (task * result) * cstate :=
  match sort_tasks (inflight s) with
  | [] =>
    (* channel empty and done == total: leave the loop (mod.rs:141-143, 214-220) *)
    ((if has_remaining (dm s) then VErr else VOk), w, trace, s)
  | t0 :: _ =>
    match fuel with
    | O => (VFuel, w, trace, s)
    | S fuel' =>
      let sl := sort_tasks (inflight s) in
      let k := pick sched sl in
      let t := nth k sl t0 in
      let s1 := mkC (seen s) (seen_dirs s) (dm s) (total s) (done s) (remove_nth k sl) in
      match exec_task t w with
      | None => (VPanic, w, trace, s1)
      | Some (r, w') =>
        match handle s1 r with
        | Continue s2 => run_loop fuel' (tl sched) s2 w' (trace ++ [(t, r)])
        | Fail =>
          match drain (length (inflight s1)) (tl sched) (inflight s1) w' (trace ++ [(t, r)]) with
          | Some (w'', tr) => (VErr, w'', tr, s1)
          | None => (VPanic, w', trace ++ [(t, r)], s1)
          end
        | Panic => (VPanic, w', trace ++ [(t, r)], s1)
        end
      end
    end
  end.

End RUN.

(* Txtpp::run.  The thread-pool size only restricts which in-flight tasks can be
   running; every schedule of a pool of any size >= 1 is a schedule here. *)
Definition txtpp_run (orc : oracle) (cfg : config) (fuel : nat) (sched : list nat) (w : world)
  : verdict * world * list (task * result) * cstate :=
  if cfg_threads cfg =? 0 then (VErr, w, [], c_init)
  else
    match os_resolve (w_fs w) (cfg_base cfg) with
    | None => (VErr, w, [], c_init)
    | Some base =>
      match resolve_inputs (w_fs w) base (cfg_inputs cfg) [] [] with
      | None => (VErr, w, [], c_init)
      | Some (files, dirs) =>
        let s := fold_left (fun s f => exec_file s f true) files c_init in
        let s := fold_left exec_dir dirs s in
        run_loop orc cfg base fuel sched s w []
      end
    end.
