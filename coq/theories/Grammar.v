(* Grammar.v — Directive::detect_from (directive_from.rs:15-48),
   Directive::add_line (directive_add_line.rs:13-33),
   DirectiveType::try_from / supports_multi_line (directive/mod.rs:75-100).
   Model only. *)
Require Import Txtpp.Str Txtpp.Consts.

Inductive dtype := DEmpty | DInclude | DAfter | DRun | DTag | DTemp | DWrite.

(* declaration order of `enum DirectiveType` *)
Definition dtype_of_index (i : N) : option dtype :=
  match i with
  | 0 => Some DEmpty | 1 => Some DInclude | 2 => Some DAfter | 3 => Some DRun
  | 4 => Some DTag | 5 => Some DTemp | 6 => Some DWrite | _ => None
  end.
Definition dtype_index (t : dtype) : N :=
  match t with
  | DEmpty => 0 | DInclude => 1 | DAfter => 2 | DRun => 3 | DTag => 4 | DTemp => 5 | DWrite => 6
  end.

Record directive := mkD { d_ws : str; d_prefix : str; d_ty : dtype; d_args : list str }.

Definition TXTPP_HASH : str := c_txtpp_hash.

(* `match value { "" => .., "include" => .., _ => Err }`: first matching arm *)
Fixpoint lookup_name (tbl : list (str * N)) (n : str) : option dtype :=
  match tbl with
  | [] => None
  | (k, i) :: r => if str_eqb n k then dtype_of_index i else lookup_name r n
  end.
Definition dtype_of_name (n : str) : option dtype := lookup_name c_name_table n.

Definition multi (t : dtype) : bool :=
  negb (existsb (N.eqb (dtype_index t)) c_single_line_types).

Definition detect_from (line : str) : option directive :=
  let '(ws, rest) := split_ws line in
  match find_sub TXTPP_HASH rest with
  | None => None
  | Some i =>
    let prefix := firstn i rest in
    let after := skipn (i + length TXTPP_HASH) rest in
    let '(name, arg) := match split_once_sp after with
                        | Some (n, a) => (n, trim a)
                        | None => (after, [])
                        end in
    match dtype_of_name name with
    | Some t => Some (mkD ws prefix t [arg])
    | None => None
    end
  end.

Inductive add_result := AddOk (d : directive) | AddStop | AddPanic.

Definition push_arg (d : directive) (a : str) : directive :=
  mkD (d_ws d) (d_prefix d) (d_ty d) (d_args d ++ [a]).

Definition add_line (d : directive) (line : str) : add_result :=
  if negb (multi (d_ty d)) then AddStop else
  if starts_with (d_ws d) line then
    match slice_from (length (d_ws d)) line with
    | None => AddPanic
    | Some l =>
      if str_eqb l (trim_end (d_prefix d)) then AddOk (push_arg d [])
      else if starts_with (d_prefix d) l || starts_with (repeat_sp (length (d_prefix d))) l
      then match slice_from (length (d_prefix d)) l with
           | None => AddPanic
           | Some a => AddOk (push_arg d (trim_end a))
           end
      else AddStop
    end
  else AddStop.
