(* Tags.v — TagState (core/util/tag_state.rs) and ReplaceLineEnding (core/util/string.rs).
   The HashMap is an association list whose ORDER IS ARBITRARY (Rust's hash
   seeds are random): theorems about `stored` are stated up to permutation.
   Model only. *)
Require Import Txtpp.Str.

Record tags := mkTags { listening : option str; stored : list (str * str) }.

Definition tags_new : tags := mkTags None [].

Definition prefix_related (a b : str) : bool := starts_with a b || starts_with b a.

(* tag_state.rs:33-54.  None = Err *)
Definition create (t : tags) (tag : str) : option tags :=
  match listening t with
  | Some _ => None
  | None =>
    if existsb (fun kv => prefix_related (fst kv) tag) (stored t) then None
    else Some (mkTags (Some tag) (stored t))
  end.

Fixpoint store_remove (k : str) (l : list (str * str)) : list (str * str) :=
  match l with
  | [] => []
  | (k', v) :: r => if str_eqb k k' then store_remove k r else (k', v) :: store_remove k r
  end.

(* HashMap::insert: replaces the value of an existing key *)
Definition store_put (k v : str) (l : list (str * str)) : list (str * str) :=
  (k, v) :: store_remove k l.

(* tag_state.rs:56-65.  None = Err(()) : nothing is listening *)
Definition try_store (t : tags) (content : str) : option tags :=
  match listening t with
  | Some tag => Some (mkTags None (store_put tag content (stored t)))
  | None => None
  end.

Definition has_tags (t : tags) : bool :=
  match listening t with Some _ => true | None => negb (match stored t with [] => true | _ => false end) end.

(* string.rs:6-22 *)
Definition replace_line_ending (s le : str) (force_trailing : bool) : str :=
  join le (lines s) ++ (if force_trailing || ends_with_lf s then le else []).

(* (index of first occurrence, key, value) for every stored tag that occurs *)
Definition occ := (nat * (str * str))%type.
Fixpoint occurrences (st : list (str * str)) (line : str) : list occ :=
  match st with
  | [] => []
  | (k, v) :: r =>
    match find_sub k line with
    | Some i => (i, (k, v)) :: occurrences r line
    | None => occurrences r line
    end
  end.

(* stable insertion sort by index (slice::sort_by is stable) *)
Fixpoint insert_occ (x : occ) (l : list occ) : list occ :=
  match l with
  | [] => [x]
  | y :: r => if Nat.leb (fst x) (fst y) then x :: y :: r else y :: insert_occ x r
  end.
Fixpoint sort_occ (l : list occ) : list occ :=
  match l with
  | [] => []
  | x :: r => insert_occ x (sort_occ r)
  end.
(* the stable sort processes elements left to right, keeping earlier elements first among ties *)
Definition stable_sort_occ (l : list occ) : list occ := sort_occ l.

(* the loop of tag_state.rs:78-88; out is accumulated in order.
   None = a slice panics (bounds out of order cannot happen thanks to the skip,
   kept explicit so that it is a theorem) *)
Fixpoint inject_loop (le line : str) (l : list occ) (last_end : nat) (out : str) (removed : list str)
  : option (str * nat * list str) :=
  match l with
  | [] => Some (out, last_end, removed)
  | (i, (k, v)) :: r =>
    if Nat.ltb i last_end then inject_loop le line r last_end out removed
    else if Nat.leb i (length line) then
      inject_loop le line r (i + length k)%nat
        (out ++ firstn (i - last_end) (skipn last_end line) ++ replace_line_ending v le false)
        (removed ++ [k])
    else None
  end.

(* tag_state.rs:67-94.  None = panic (assert on the line shape, or a slice) *)
Definition inject (t : tags) (line le : str) : option (str * tags) :=
  if ends_with_lf line then None else
  let l := stable_sort_occ (occurrences (stored t) line) in
  match inject_loop le line l 0%nat [] [] with
  | None => None
  | Some (out, last_end, removed) =>
    if Nat.leb last_end (length line)
    then Some (out ++ skipn last_end line,
               mkTags (listening t) (fold_left (fun s k => store_remove k s) removed (stored t)))
    else None
  end.
