#!/usr/bin/env python3
"""One-off helper: prints props.src blocks whose statement text is what Coq prints for existing lemmas.
usage: seedprops.py '<Require lines>' name:=lemma ...    (statements are then FIXED text in props.src)"""
import sys, subprocess, os, re
VERIF = os.path.dirname(os.path.dirname(os.path.abspath(__file__)))
hdr = sys.argv[1]
pairs = [a.split(":=") for a in sys.argv[2:]]
src = hdr + "\nSet Printing Width 110.\n" + "".join('Goal True. idtac "@@@%s". exact I. Qed.\nCheck %s.\n' % (n, l) for n, l in pairs)
f = "/tmp/seed_%d.v" % os.getpid()
open(f, "w").write(src)
r = subprocess.run(["coqc", "-noglob", "-Q", os.path.join(VERIF, "coq", "theories"), "Txtpp", f], stdout=subprocess.PIPE, stderr=subprocess.STDOUT, text=True)
out = r.stdout
if r.returncode != 0: print(out); sys.exit(1)
chunks = out.split("@@@")[1:]
for (n, l), ch in zip(pairs, chunks):
    body = ch.split("\n", 1)[1]
    m = re.match(r"\s*[\w.']+\s*\n?\s*:\s(.*)", body, re.S)
    stmt = m.group(1).rstrip()
    stmt = "\n".join(x[5:] if x.startswith("     ") else x for x in stmt.split("\n"))
    print("----\n%s := %s\n%s" % (n, l, stmt))
