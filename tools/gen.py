"""gen — generators of sources and projects inside the documented input domain (DESIGN.md 4.2, 4.3)."""
from vplib import *   # noqa

WS = ["", "", "  ", "\t", " \t", "    "]
PREFIXES = ["-", "// ", "/* ", "#", "é ", "-- ", "<!-- ", "x"]
WORDS = ["alpha", "beta", "gamma", "x", "é", "foo bar", "a  b", "TXTPP", "# not", "end."]
LOOKALIKE = ["TXTPP#runx y", "TXTPP #run", "txtpp#run x", "TXTPP#Run x", "TXTPP#includes f", "// TXTPP# x", "TXTPP#", " TXTPP#tagx",
             "-TXTPP#writeln", "TXTPP#run\tx"]
TAGNAMES = ["TAG1", "T2", "@@X", "Zé", "LONGTAGNAME"]

def esc_printf(b):
    """a printf format producing exactly bytes b (ASCII letters/digits/space and LF/CR only)"""
    out = ""
    for c in b:
        ch = chr(c)
        if ch == "\n": out += "\\n"
        elif ch == "\r": out += "\\r"
        else: out += ch
    return "printf '%s'" % out

def gen_cmd(rng, marker=None):
    """returns (command text lines, status, stdout bytes)"""
    k = rng.below(10)
    pre = ("printf x >> @M@/%s; " % marker) if marker else ""
    if k == 0:
        return [pre + "false"], 1, b""
    if k == 1:
        return [pre + "exit 3"], 3, b""
    if k == 2:
        return [pre + "echo hi"], 0, b"hi\n"
    if k == 3:
        ws = [rng.choice(["a", "bb", "c c", "dd"]) for _ in range(1 + rng.below(3))]
        # multi-line command: printf '%s\n' w1 w2 ...   (arguments joined by one space)
        lines = [pre + "printf '%s\\n'"] + ["'%s'" % w for w in ws]
        return lines, 0, b"".join(w.encode() + b"\n" for w in ws)
    body = rng.choice([b"one", b"one\n", b"l1\nl2", b"l1\nl2\n", b"\n", b"", b"a\r\nb\r\n", b"x\n\ny\n", b"  ind\n", b"t  \n", b"a\rb\n",
                       b"m1\r\nm2\nm3\r\n", b"n1\nn2\r\nn3"])       # mixed endings inside ONE output
    return [pre + esc_printf(body)], 0, body

class SrcGen:
    """builds one .txtpp source; records its directives for the evidence distribution"""
    def __init__(self, rng, le="\n", includes=(), temps=(), allow_errors=True, marker_prefix=None, tags=True, cmds=True):
        self.rng = rng; self.le = le; self.includes = list(includes); self.temps = list(temps)
        self.allow_errors = allow_errors; self.lines = []; self.cmds = []; self.stats = collections.Counter()
        self.live_tags = []; self.listening = None; self.marker_prefix = marker_prefix; self.nmark = 0
        self.tags = tags; self.use_cmds = cmds; self.used_temps = []
    def text_line(self):
        r = self.rng
        k = r.below(10)
        if self.live_tags and k < 4:
            t = self.live_tags.pop(r.below(len(self.live_tags)))
            self.stats["text:tag-use"] += 1
            return r.choice(["", "pre "]) + t + r.choice(["", " post", t])
        if k < 6: self.stats["text:plain"] += 1; return r.choice(WS) + r.choice(WORDS)
        if k < 8: self.stats["text:lookalike"] += 1; return r.choice(LOOKALIKE)
        if k == 8: self.stats["text:blank"] += 1; return r.choice(["", " ", "\t"])
        self.stats["text:plain"] += 1
        return r.choice(WORDS) + " " + r.choice(WORDS)
    def directive(self):
        r = self.rng
        kinds = ["include", "write", "temp", "", "after"]
        if self.use_cmds: kinds += ["run", "run"]
        if self.tags: kinds += ["tag"]
        ty = r.choice(kinds)
        ws = r.choice(WS)
        multi = ty in ("run", "temp", "write", "")
        prefix = r.choice(PREFIXES)
        if (not multi and r.chance(1, 2)) or (multi and self.allow_errors and r.chance(1, 40)):
            prefix = ""
        args = []
        if ty in ("include", "after"):
            if not self.includes: ty = "write"; multi = True; prefix = prefix or "-"
            else:
                t = r.choice(self.includes)
                if self.allow_errors and r.chance(1, 15): t = r.choice(["missing_file.txt", "sub/missing.md", "nodir/x.txt"])
                args = [t]
        if ty == "run":
            marker = None
            if self.marker_prefix is not None and r.chance(1, 2):
                marker = "%s_%d" % (self.marker_prefix, self.nmark); self.nmark += 1
            lines, st, out = gen_cmd(r, marker)
            if st != 0 and not (self.allow_errors and r.chance(1, 6)):
                lines, st, out = [esc_printf(b"ok\n")], 0, b"ok\n"
            args = lines
            self.cmds.append((" ".join(lines), st, out))
        if ty == "temp":
            if not self.temps: ty = "write"
            else:
                # D2: a temp target is written by one directive only
                t = self.temps.pop(r.below(len(self.temps)))
                # the prescribed error: a temp target that has the shape of a source (either form) is refused
                if self.allow_errors and r.chance(1, 30): t = r.choice(["bad.txtpp", "bad.txtpp.md", "helper.txtpp.txt"])
                n = r.below(4)
                args = [t] + [r.choice(["body", "  two", "", "é x", "TXTPP#run no"]) for _ in range(n)]
                self.used_temps.append(t)
        if ty == "write":
            n = 1 + r.below(3)
            args = [r.choice(["TXTPP#run echo", "plain", "", "  lead", "é", "TAG1 T2"]) for _ in range(n)]
        if ty == "":
            args = [r.choice(["", ":/", "ignored"])] + [r.choice(["x", "", "-:/"]) for _ in range(r.below(3))]   # no glob characters: a continuation can end up inside a shell command
        if ty == "tag":
            name = r.choice(TAGNAMES)
            ok = self.listening is None and not any(t.startswith(name) or name.startswith(t) for t in self.live_tags)
            if not ok and not (self.allow_errors and r.chance(1, 8)):
                # choose a name that is fine, or drop the directive
                cands = [n for n in TAGNAMES if not any(t.startswith(n) or n.startswith(t) for t in self.live_tags)]
                if self.listening is not None or not cands: return self.text_block()
                name = r.choice(cands)
            args = [name]
            self.listening = name
        self.stats["dir:" + (ty or "empty")] += 1
        # first line
        first = ws + prefix + "TXTPP#" + ty + ((" " * (1 + r.below(2)) + args[0] + r.choice(["", " ", "\t"])) if args and (args[0] != "" or r.chance(1, 2)) else "")
        out = [first]
        pb = len(prefix.encode("utf-8"))
        for a in args[1:]:
            form = r.below(3)
            if a == "" and r.chance(1, 2): out.append(ws + prefix.rstrip()); self.stats["cont:trimmed-prefix"] += 1
            elif form == 0 or not prefix: out.append(ws + prefix + a + r.choice(["", "  "])); self.stats["cont:prefix"] += 1
            else: out.append(ws + " " * pb + a + r.choice(["", " "])); self.stats["cont:spaces"] += 1
        # an output-producing directive fills a listening tag
        if ty in ("include", "run", "write") and self.listening is not None:
            self.live_tags.append(self.listening); self.listening = None
        return out, ty, prefix, ws
    def text_block(self):
        return [self.text_line()], None, None, None
    def build(self, nblocks):
        r = self.rng
        prev_dir = None
        for _ in range(nblocks):
            if r.chance(3, 5):
                ls, ty, prefix, ws = self.directive()
                if ty is None: self.lines += ls; prev_dir = None; continue
                # a multi-line-capable directive right after another with the same ws/prefix would be swallowed as a continuation: that is fine and intended sometimes
                self.lines += ls
                prev_dir = (ty, prefix, ws)
                # terminator
                k = r.below(6)
                if k == 0: self.lines.append(""); self.stats["term:blank"] += 1
                elif k == 1: self.lines.append(ws + (prefix[:-1] if prefix else "q") + "almost"); self.stats["term:almost"] += 1
                elif k == 2 and prefix: self.lines.append(ws + "=" + prefix + "TXTPP#"); self.stats["term:empty-directive"] += 1
                else: self.stats["term:next"] += 1
            else:
                self.lines += self.text_block()[0]
        # use up tags so that the file is well-formed (unless exercising the error)
        if not (self.allow_errors and r.chance(1, 10)):
            if self.listening is not None:
                self.lines.append("-TXTPP#write fill"); self.live_tags.append(self.listening); self.listening = None
            for t in self.live_tags: self.lines.append("use " + t + " here")
            self.live_tags = []
        end = r.below(4)
        body = self.le.join(self.lines)
        if self.lines and end != 0: body += self.le
        if end == 3 and r.chance(1, 3): body += self.le
        return body.encode("utf-8")

import collections

def mixed_endings(rng, data, le):
    """re-terminate later lines with the other ending (the first line keeps `le`)"""
    other = b"\r\n" if le == "\n" else b"\n"
    parts = data.split(le.encode())
    out = b""
    for i, p in enumerate(parts[:-1]):
        out += p + (le.encode() if i == 0 or not rng.chance(1, 3) else other)
    return out + parts[-1]

NAME_SHAPES = ["%s.txt.txtpp", "%s.txtpp.md", "%s.txtpp"]
def out_name(src):
    if src.endswith(".txt.txtpp"): return src[:-6]
    if src.endswith(".txtpp.md"): return src[:-9] + ".md"
    return src[:-6]

def gen_project(rng, pid, nsrc=None, modes=(0,), allow_errors=True, edges="dag", markers=False, tags=True, cmds=True, mixed=True):
    """a project in the documented domain: sources over <= 3 directories, include/after edges, plain includes, temp targets"""
    p = Project(pid)
    r = rng
    nsrc = nsrc or 1 + r.below(5)
    dirs = ["/"] + r.shuffle(["/sub/", "/sub/deep/", "/other/"])[: r.below(3)]
    for d in dirs:
        if d != "/": p.dirs.append(d.rstrip("/"))
    stems = ["a", "b", "c", "d", "e", "f"][:nsrc]
    srcs = []
    for s in stems:
        d = r.choice(dirs)
        srcs.append(d + (r.choice(NAME_SHAPES) % s))
    plains = []
    for i in range(1 + r.below(3)):
        d = r.choice(dirs)
        name = d + "inc%d.txt" % i
        body = r.choice([b"inc line\n", b"no newline", b"two\nlines\n", b"crlf\r\nlines\r\n", b"", b"\n", b"  indented\n\nafter blank\n", "é unicode\n".encode(),
                         b"mixed\r\nendings\nin one\r\nfile\n"])
        plains.append(name); p.files.append((name, body))
    # dependency edges
    deps = {s: [] for s in srcs}
    for i, s in enumerate(srcs):
        for j, t in enumerate(srcs):
            if i == j: continue
            if edges == "none": continue
            if edges == "dag" and j <= i: continue
            if r.chance(1, 3): deps[s].append(t)
        if edges == "any" and r.chance(1, 12): deps[s].append(s)
    def rel(frm, to):
        fd = frm.rsplit("/", 1)[0].split("/")[1:]; td = to.split("/")[1:]
        fd = [x for x in fd if x]
        i = 0
        while i < len(fd) and i < len(td) - 1 and fd[i] == td[i]: i += 1
        return "/".join([".."] * (len(fd) - i) + td[i:])
    stats = collections.Counter()
    for k, s in enumerate(srcs):
        le = "\r\n" if r.chance(1, 4) else "\n"
        incs = [rel(s, out_name(t)) for t in deps[s]] + [rel(s, q) for q in plains if r.chance(1, 2)]
        stem = stems[k]
        temps = ["%s_t%d.tmp" % (stem, i) for i in range(3)]
        g = SrcGen(r.fork("src%d" % k), le=le, includes=incs, temps=temps, allow_errors=allow_errors,
                   marker_prefix=("m%s" % stem) if markers else None, tags=tags, cmds=cmds)
        data = g.build(r.below(9))
        if mixed and r.chance(1, 5): data = mixed_endings(r, data, le)
        p.files.append((s, data))
        for c in g.cmds:
            if c not in p.cmds: p.cmds.append(c)
        stats.update(g.stats)
    p.mode = r.choice(list(modes)); p.trailing = not r.chance(1, 4)
    # inputs: directory, or a subset of sources by source or output name
    k = r.below(4)
    if k == 0: p.inputs = ["."]; p.recursive = True
    elif k == 1: p.inputs = [s.lstrip("/") for s in srcs]
    elif k == 2: p.inputs = [out_name(s).lstrip("/") for s in srcs]
    else:
        sub = [s for s in srcs if r.chance(1, 2)] or [srcs[0]]
        p.inputs = [(out_name(s) if r.chance(1, 2) else s).lstrip("/") for s in sub]
    p.sched = [r.below(6) for _ in range(4 * nsrc + 8)]
    p.stats = stats; p.srcs = srcs; p.deps = deps
    return p

def gen_large_project(rng, pid, modes=(0,)):
    """outputs above the 8 KiB buffers of BufReader/BufWriter (9-30 KiB): chunk boundaries straddle multiples of 8192 at
    varying offsets. Built from many SHORT lines and small includes: the model's string functions use the quadratic
    List.rev on single strings, so one huge line or one huge include would cost minutes in the extracted evaluator."""
    r = rng
    p = Project(pid)
    le = "\r\n" if r.chance(1, 4) else "\n"
    nlines = 150 + r.below(350)
    width = 5 + r.below(60)
    lines = []
    for i in range(nlines):
        w = max(1, width + r.below(9) - 4)
        lines.append(("%d " % i + "x" * w)[:w])
    inc = "".join("inc line %d %s\n" % (i, "y" * r.below(60)) for i in range(20 + r.below(20)))
    p.files.append(("/big.inc", inc.encode()))
    mid = []
    for k in range(2 + r.below(4)):
        mid += ["  -TXTPP#include big.inc", "between %d" % k]
    temp = ["=TXTPP#temp a_t0.tmp"] + ["=" + "t" * (10 + r.below(60)) for _ in range(100 + r.below(150))] + [""]
    body = lines[: nlines // 2] + mid + temp + lines[nlines // 2:]
    p.files.append(("/a.txt.txtpp", (le.join(body) + le).encode()))
    p.files.append(("/sub/b.txtpp", (le.join(lines) + (le if r.chance(1, 2) else "")).encode()))
    p.srcs = ["/a.txt.txtpp", "/sub/b.txtpp"]; p.deps = {s: [] for s in p.srcs}
    p.mode = r.choice(list(modes)); p.trailing = not r.chance(1, 4)
    p.inputs = ["."]; p.recursive = True
    p.sched = [r.below(3) for _ in range(10)]
    p.stats = collections.Counter({"large:project": 1})
    return p
