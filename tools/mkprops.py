#!/usr/bin/env python3
"""Generates coq/theories/props/Cxx.v from coq/props.src/Cxx.txt.

A source file is a sequence of blocks separated by lines of `----`:
  first block: header (imports, a comment)
  other blocks:  line 1 = `<theorem name> := <lemma to close it with>`, rest = the statement.
The generated file contains, per block: Theorem / Proof. exact / Qed. / Check pin / Print Assumptions,
so that a statement cannot be weakened without the pin breaking."""
import sys, os, glob
VERIF = os.path.dirname(os.path.dirname(os.path.abspath(__file__)))
src = os.path.join(VERIF, "coq", "props.src"); dst = os.path.join(VERIF, "coq", "theories", "props")
for f in sorted(glob.glob(os.path.join(src, "C*.txt"))):
    pid = os.path.basename(f)[:-4]
    blocks = [b.strip("\n") for b in open(f).read().split("\n----\n")]
    out = [blocks[0], ""]
    for b in blocks[1:]:
        if not b.strip(): continue
        head, stmt = b.split("\n", 1)
        name, lemma = [x.strip() for x in head.split(":=")]
        stmt = stmt.strip()
        if stmt.startswith("(*"):
            # leading comment stays outside the statement
            end = stmt.index("*)") + 2
            out.append(stmt[:end]); stmt = stmt[end:].strip()
        out.append("Theorem %s :\n  %s.\nProof. exact %s. Qed.\nCheck %s :\n  %s.\nPrint Assumptions %s.\n" % (name, stmt, lemma, name, stmt, name))
    open(os.path.join(dst, pid + ".v"), "w").write("\n".join(out))
    print("wrote", pid)
