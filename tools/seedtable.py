#!/usr/bin/env python3
"""rewrites the seeded-changes table of DESIGN.md section 12.4 from seeded/*/meta.json"""
import json, glob, os, re
V = os.path.dirname(os.path.dirname(os.path.abspath(__file__)))
rows = ["| seed | property | change (summary) | needs | caught by (quick tier) | not caught by |", "|---|---|---|---|---|---|"]
for d in sorted(glob.glob(os.path.join(V, "seeded", "*"))):
    m = json.load(open(os.path.join(d, "meta.json")))
    summ = re.sub(r"\s+", " ", (m.get("summary") or ""))[:230]
    needs = re.sub(r"\s+", " ", (m.get("needs_to_manifest") or ""))[:170]
    missed = [c for c, r in m["my_checks"].items() if c not in m["caught_by"]]
    rows.append("| %s | %s | %s | %s | %s | %s |" % (os.path.basename(d), m["property"], summ.replace("|", "/"), needs.replace("|", "/"), ", ".join(m["caught_by"]) or "—", ", ".join(missed) or ""))
p = os.path.join(V, "DESIGN.md"); s = open(p).read()
tbl = "\n".join(rows)
if "SEEDED_TABLE" in s: s = s.replace("SEEDED_TABLE", "<!-- seeded table begin -->\n" + tbl + "\n<!-- seeded table end -->")
else: s = re.sub(r"<!-- seeded table begin -->.*?<!-- seeded table end -->", lambda _: "<!-- seeded table begin -->\n" + tbl + "\n<!-- seeded table end -->", s, flags=re.S)
open(p, "w").write(s)
print(len(rows) - 2, "rows")
