#!/usr/bin/env python3
"""Writes MANIFEST.json from the table below (kept in one place so it stays valid)."""
import json, os
VERIF = os.path.dirname(os.path.dirname(os.path.abspath(__file__)))

CLAIMED = {
 "C15": dict(
   text="Machine-checked theorems (Coq 8.16.1) about the Gallina model of Directive::detect_from / add_line state the documented grammar for every line; "
        "the model is tied to /repo on every run by an exhaustive differential sweep (every line of <= 4 tokens quick / 5 thorough over a 22-token alphabet, every detected directive x continuation variants) "
        "of the extracted model against the real functions through the `verif` re-exports, by a vm_compute cross-check of the extraction, and by regenerating the constant tables (TXTPP#, directive names, multi-line set) from the Rust source.",
   note="Trusted: Coq kernel + vm_compute; the hand-written model (tie is the sweep, exhaustive only up to the stated token bound); ExtrOcamlBasic extraction + driver.ml; the Rust harness; char::is_whitespace / str::find / split_once modelled from std documentation and probes.",
   technique="Coq proof (induction over byte strings) + exhaustive differential correspondence model vs code",
   design="6 (C15)"),
}
NOT_YET = {}
ALL = ["C%02d" % i for i in range(1, 19)]

def main():
    checks = []
    for pid in ALL:
        if pid not in CLAIMED: continue
        c = CLAIMED[pid]
        checks.append({
            "property_id": pid,
            "quick_cmd": "./vp check %s quick" % pid,
            "thorough_cmd": "./vp check %s thorough" % pid,
            "evidence_file": "evidence/%s.json" % pid,
            "replay_cmd_template": "./vp replay {path}",
            "engine": "coq-model+correspondence",
            "level_claimed": {"category": "proof", "text": c["text"], "design_ref": "DESIGN.md section " + c["design"]},
            "level_note": c["note"],
            "technique": c["technique"],
        })
    na = [{"property_id": pid, "reason": NOT_YET.get(pid, "not claimed yet: the model covers it but the property theorems and the correspondence check are still being built (no technique switch; see DESIGN.md section 10)")}
          for pid in ALL if pid not in CLAIMED]
    m = {
        "version": 1,
        "setup_cmd": "./vp setup",
        "hooks": {
            "guard": "cargo feature `verif`",
            "enable": "the harness crate /verif/harness depends on txtpp = { path = \"/repo\", features = [\"verif\"] }; cargo build --release --offline",
            "baseline_off_cmd": "cd /repo && cargo test --workspace --no-fail-fast --offline",
            "source_commits": ["fbce8eb"],
            "add_only": True,
        },
        "engines": [
            {"name": "coq-model+correspondence", "path": "coq/ harness/ tools/ vp",
             "serves_properties": [c["property_id"] for c in checks],
             "kind_free_text": "Gallina model of txtpp with machine-checked theorems (Coq 8.16.1); model tied to the code by differential runs of the extracted model (OCaml) and vm_compute against the implementation built from /repo with the `verif` feature"},
        ],
        "checks": checks,
        "not_applicable": na,
        "notes": "Genuine defects repaired by `fix:` commits in /repo and one recorded finding are listed in known_findings.txt; see DESIGN.md section 7.",
    }
    json.dump(m, open(os.path.join(VERIF, "MANIFEST.json"), "w"), indent=1)
main()
