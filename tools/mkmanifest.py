#!/usr/bin/env python3
"""Writes MANIFEST.json from the table below (kept in one place so it stays valid)."""
import json, os
VERIF = os.path.dirname(os.path.dirname(os.path.abspath(__file__)))

TB = "Trusted: Coq 8.16.1 kernel + vm_compute; the hand-written Gallina model (tied to /repo by this check's differential run against the implementation built with the `verif` feature, and by regenerating the constant tables from the Rust source); ExtrOcamlBasic extraction + driver.ml (cross-checked against vm_compute); the Rust harness and Python orchestration; Rust std, threadpool, the OS and sh are modelled, not verified."
def C(text, technique, design, note=""):
    return dict(text=text, note=(note + " " if note else "") + TB, technique=technique, design=design)
CLAIMED = {
 "C01": C("Theorems: the line-loop machine of the model (current directive, tail line, pending-newline flag) equals the README-shaped specification parse -> one chunk per item -> splice for every line sequence, mode, pass and state (machine_refines_spec), and the text handed to the sink is the splice of the chunks. Tie: generated in-domain projects, implementation vs model byte for byte, plus the repository's golden fixtures.",
          "Coq proof (fusion by induction over lines) + differential correspondence on generated projects", "6 (C01)",
          "Also proved: an item fails exactly for the enumerated prescribed errors and a file fails exactly when some item does, a tag is left unused, or the sink fails (item_error_iff, machine_err_iff). Partial: the per-directive meaning (exec_directive) is shared by machine and specification and tied to the code by the correspondence."),
 "C02": C("Theorems over every reachable state of the coordinator transition system (any in-flight task may complete next, any protocol-respecting result, any number of files): a final pass is in flight only when every reported dependency is finished, at most one task per file is in flight, finished is forever. Tie: every digraph on <=3 files (and every DAG on 4) x every input subset x every completion order through the scheduling hooks: trace, verdict and bytes against the model, outputs against a Python one-at-a-time build, stale outputs planted, snapshots taken by commands placed after the dependency directives.",
          "Coq proof (inductive coordinator invariant; frame, commutation and confluence of passes) + exhaustive controlled-schedule correspondence", "6 (C02), 12",
          "Also proved: schedule_independence (two successful runs of the model under ANY two schedules end in the same tree, for projects with pairwise disjoint footprints; schedule_independence_temps extends it to projects with temp directives under the static hypothesis sched_ok_temps), passes with disjoint footprints commute, a first pass reports exactly its .txtpp-backed include/after targets and never reads their outputs. Partial: equality with a one-file-at-a-time build outside the static hypothesis sched_ok_temps rests on the exhaustive sweep. Real interleavings of system calls inside overlapping workers are not modelled. Also proved (FreshFacts): build_result_is_all_fresh - after a successful build every processed source's output equals the text a pass over the FINAL tree produces, so every include saw the complete final bytes of its dependency; ok_runs_same_processed."),
 "C03": C("Theorems: no task completes twice, done/total counters are exact, the number of tasks is bounded by 2*files+dirs, success implies every seen file finished, and txtpp_run terminates with fuel proportional to the number of .txtpp files and directories of the initial tree (txtpp_run_terminates), for every schedule. Tie: the exhaustive graph x schedule sweep with execution-count marker files, aliased and duplicate inputs.",
          "Coq proof (invariant + termination measure) + exhaustive controlled-schedule correspondence", "6 (C03)",
          "Partial: termination of the child processes themselves is outside the model. Also proved (MoreFacts3): the ERun events of a pass and of a whole successful run are exactly those prescribed per task, in trace order (pass_ok_runs, first_pass_deps_runs, run_commands_legal). Exact counts (OnceFacts): in a successful run every seen file has exactly one pass (first, POk) or exactly two (first reporting dependencies, then final POk); a command after the first dependency directive or in a file without dependencies is executed exactly once, one before it exactly twice (commands_exactly_once, commands_permutation); no task completes twice under ANY verdict (trace_nodup_any)."),
 "C04": C("Theorems: a run that reports success delivered no failed task result and finished every seen file (every schedule, every position in the graph); verify accepts iff the bytes are equal. Tie: fault matrix (11 fault kinds x 4 positions x 4 graph shapes x schedules) through the library against the model, and the real binary under /dev/full, RLIMIT_FSIZE and read-only directories.",
          "Coq proof (run-level simulation of the coordinator invariant) + fault-matrix correspondence", "6 (C04)",
          "Partial: OS fault behaviour (ENOSPC at flush, EFBIG) and BufWriter are exercised on the real binary, not modelled."),
 "C05": C("Theorems: at exit every seen file is finished or waiting; a file with no infinite dependency chain (Acc) is finished; the circular-dependency verdict is raised iff some seen file is unfinished, and such a file has an unfinished dependency (so it reaches a cycle). Tie: all digraphs with self-loops on <=3 files x inputs x schedules: verdict, termination, bytes of the acyclic part.",
          "Coq proof (invariant, induction on Acc) + exhaustive controlled-schedule correspondence", "6 (C05)",
          "Statically (CycleFacts): cycle_iff_static - in a run without a failing task the circular-dependency error is raised IF AND ONLY IF some file reached from the inputs reaches a cycle of the static dependency graph of the initial tree, under every schedule; every reached file that does not reach a cycle gets its successful last pass; acyclic projects never get the error; the run ends VOk or VErr with the static fuel bound."),
 "C06": C("Theorems: the streaming verifier accepts iff the concatenation of all chunks equals the existing file, for every chunking; a missing output is a mismatch; a verify pass logs no event on the output path and unlogged paths keep their bytes. Tie: build, tamper (flip/insert/delete/truncate/extend/empty/remove, option flip), verify: verdict and bytes+mtime+inode of every output.",
          "Coq proof (induction over chunks; event-log frame) + history correspondence", "6 (C06)",
          "Also proved at pass level: verify_pass_iff (a final verify pass succeeds iff the existing output holds exactly the text an in-memory build produces) and its corollaries for any differing byte / missing file. Whole runs (VerifyRunFacts, FreshFacts): verify_iff_all_fresh - with enough fuel a Verify run succeeds IF AND ONLY IF the inputs resolve and every reached source is acyclic and its output holds exactly its fresh text; hence any stale, missing or altered output of a reached source fails the run under every schedule, and verify after a successful build passes and logs no event on any output (verify_after_build_passes). Static hypotheses: verify_static, temps_private, sched_ok_temps."),
 "C07": C("Theorems: a clean pass only logs removals, never consults the command oracle (the result is independent of it), never waits for dependencies, touches only its own output and temp targets, and unlogged paths keep their bytes. Tie: build then clean on generated projects (erroneous directives included): tree restored exactly, no marker written, no .txtpp deleted.",
          "Coq proof (event-log invariant, oracle independence) + build/clean history correspondence", "6 (C07)",
          "Also proved at pass level: build_then_clean_restores_pass (a successful final Build pass followed by a Clean pass restores the tree when nothing was lying at the output and temp targets), clean removes the output, cleaning twice equals once. Whole runs (CleanRunFacts): any Clean run logs only removals (clean_run_no_command); build then clean restores the tree exactly when every dependency is itself cleaned and no footprint pre-existed (clean_after_build_restores; counterexample kept: clean does not follow dependencies); cleaning twice changes nothing."),
 "C08": C("Theorems (sink level): build truncates then appends; the verdict and result of temp writes and of --needed do not depend on the old bytes at the generated path. Tie: every generated project rebuilt from pre-states with absent/exact/prefix/extended/empty/stale/non-UTF-8 content at each generated path, and rebuilt twice: verdict and whole tree must equal the build from the clean tree.",
          "Coq proof (case analysis of the sinks) + pre-state history correspondence", "6 (C08)",
          "Also proved: a pass depends on the tree only through look-ups (pp_run_ext), a Build pass ignores what lies at its output, the frame theorem, and for whole runs stale_outputs_irrelevant(_deps): two initial trees that differ only at output paths give the same verdict, trace and coordinator state under the same schedule, and agree afterwards on every rewritten output. stale_outputs_and_temps_irrelevant extends this to stale temp targets; the crash clause is proved on the model (interrupted_inside_pass_legal: a run cut after any prefix of its events has touched only footprints and left every source intact; interrupted_then_rebuild_exact: rebuilding from the interrupted tree gives the verdict, trace and tree of a build from the initial tree). Partial: the real kill and what the OS had buffered rest on SIGKILL/SIGTERM histories of the binary (25 quick / 400 thorough). Whole runs, any schedules (IdemFacts): build_function_of_sources (two trees that differ only on stale outputs/temp targets end in the same tree), build_idempotent, rebuild_interrupted, rebuild_events; interrupted_then_rebuild_temps_exact."),
 "C09": C("Theorems (sink level): --needed buffers, writes nothing when the file is already the fresh text, brings a stale file to exactly the fresh text; a temp file with correct content is not rewritten in any mode. Tie: pre-states x {needed, build, verify}: needed = build byte for byte, inode+mtime of correct files unchanged, stale ones updated.",
          "Coq proof (case analysis of the sinks) + inode/mtime history correspondence", "6 (C09)",
          "Also proved at pass level: needed_pass_vs_build_pass (same verdict and same tree as a Build pass, modulo the output path on errors). Whole runs (NeededRunFacts): needed_run_equals_build_run (same schedule: same verdict, trace and, on success, tree; any two schedules on success), needed_after_build_writes_nothing (file system EQUAL, only ERun events logged), needed_updates_exactly_stale, needed_rebuilds_stale. Static hypotheses needed_ok, temps_distinct; kept counterexample: a temp directive naming the source's own output makes Build and --needed differ (outside D2)."),
 "C10": C("Theorems: every event of a pass (any mode, any outcome) is on the output path or on the lexical normalisation of a temp target named in the source; OS resolution equals lexical normalisation; unlogged paths keep their bytes; the output is beside the source and differs from it. Tie: full-tree snapshots (bytes, inode, mtime) with decoys, four modes: the touched set equals the model's event log.",
          "Coq proof (event-log invariant over the item list, lifted to whole runs) + full-tree snapshot correspondence", "6 (C10)",
          "Also proved for whole runs, any mode and schedule (run_events_allowed_legal, run_frame_legal, verify_run_untouched_legal, clean_run_events_legal): every event is on the output or a temp target of a source that was given a pass."),
 "C11": C("Theorems: a name is a source iff its last or second-to-last extension is txtpp; the three documented shapes and dotted stems map to the documented output names; candidates of an output name map back; outputs are sources only for double-txtpp names. Tie: exhaustive name sweep through is_txtpp_file/remove_txtpp, random trees x input lists x recursion x base directory: which outputs exist, verdict.",
          "Coq proof (case analysis on std::path extension semantics) + exhaustive name sweep and tree correspondence", "6 (C11)",
          "Also proved: every file given a pass is an input, was returned by an earlier scan, or was reported by an earlier first pass (txtpp_run_only_required); clean follows no dependencies. Together with inputs_are_processed / dependencies_are_processed of C03 this is the processed-set statement. The model's remove_txtpp includes the refusal of fix F8 (a source whose stem is `.` has no output beside it: dot_stem_sources_are_refused_before_anything_is_written); such sources are part of the C11 tree sweep."),
 "C12": C("Theorems (ingredients): lines are free of LF, and free of CR when CR occurs only before LF; tag content is re-joined with the file's ending (replace_line_ending_uniform). Tie: generated projects with independently mixed endings in first line, later lines, includes, command output, temp bodies, tag contents: byte-class scan of every generated file of the implementation.",
          "Coq proof (induction over lines) + byte-class scan correspondence", "6 (C12)",
          "Proved for whole files through the in-memory sink (output_le_uniform) and for temp bodies; First-line sniffing on very long first lines is covered by the scan only. Build sink and whole runs (BuildLeFacts): build_output_le_uniform, temp_files_le_uniform_build, run_outputs_le_uniform (after a successful build every output uses the ending of ITS OWN source's first line, also when it includes outputs with the other ending), under the domain condition D1 (kept counterexample: a lone CR in an included file reaches the output)."),
 "C13": C("Theorems: the option is consulted only in the epilogue; with it on, the buffer handed to the sink is the buffer with it off plus the line ending iff the pending-newline flag is set; the text is splice(chunks). Tie: every generated source built with the option on and off: identical or on = off + line ending, temp files identical, sources ending in a text line.",
          "Coq proof (epilogue case analysis, splice lemma) + on/off pair correspondence", "6 (C13)",
          "On the Build sink (MoreFacts1): trailing_newline_build (the built file with the option is the file without it plus at most one final ending; identical verdicts; nothing else differs), build_ends_with_text_line."),
 "C14": C("Theorems: stored names are pairwise prefix-free in every reachable state; create fails exactly when documented; inject's result is invariant under permutation of the hash map (determinism); first occurrence replaced by normalised content then deleted; two tags left to right; overlapped occurrence left alone; never panics. Tie: exhaustive sweep (<=3 tags over prefix-related names x lines of <=5 symbols) with 8 fresh hash seeds per case, whole-file lifecycle cases.",
          "Coq proof (permutation invariance of a stable sort with distinct keys) + exhaustive differential sweep", "6 (C14)"),
 "C15": C("Theorems: detect_from = the documented grammar (iff), add_line = the documented continuation rule (iff), the white-space table is the 25 Unicode White_Space code points, the name table regenerated from the Rust source is the documented one. Tie: exhaustive sweep of all lines of <=4 tokens (22-token alphabet) and directive x continuation variants, vm_compute cross-check.",
          "Coq proof (induction over byte strings) + exhaustive differential sweep", "6 (C15)"),
 "C16": C("Theorems: a source without directive lines parses to its lines and is reproduced chunk for chunk; a text line without stored tags is itself; write output is the arguments, indented and joined, independent of the tag store. Tie: look-alike sources reproduced line for line, write round trips (with a stored tag around).",
          "Coq proof (induction over lines) + identity/round-trip correspondence", "6 (C16)"),
 "C17": C("Theorems: a run directive hands the shell one argument (lines joined by single spaces), runs in the parent directory of the source whatever the base, and TXTPP_FILE designates the source for every source that is not nested below the base; the nested case is refuted by a witness (known finding). Tie: sources at depth 0-3 x base x process cwd (with decoy directories): pwd -P, TXTPP_FILE, joined arguments, exit status; CLI guard and no recursion.",
          "Coq proof (definitional unfolding; witness by vm_compute) + base/cwd matrix correspondence", "6 (C17)",
          "Partial: process creation and the shell are modelled by the invocation record. Known finding txtpp_file_nested is listed in known_findings.txt."),
 "C18": C("Theorems: one pass never panics whatever the bytes (slices at character boundaries, the assertion before tag injection, for all inputs); the dependency-counter unwrap never fails in any reachable state; a worker always sends a result; the whole run never panics and terminates within a fuel bound computed from the initial tree. Tie: robustness stream (random bytes, invalid UTF-8, NUL, lone CR, huge lines, cut multi-byte continuations) x modes x 0-16 threads with an any-thread panic hook and watchdog; CLI -j 0.",
          "Coq proof (UTF-8 boundary lemmas, coordinator invariant, termination measure) + robustness stream", "6 (C18)",
          "Partial: memory exhaustion, blocking special files and non-terminating children are outside any executable model. Also: txtpp_run_no_panic without any hypothesis, txtpp_run_ok_or_err."),
}
NOT_YET = {}
ALL = ["C%02d" % i for i in range(1, 19)]

def main():
    checks = []
    for pid in ALL:
        if pid not in CLAIMED: continue
        c = CLAIMED[pid]
        checks.append({
            "property_id": pid,
            "quick_cmd": "./vp check %s quick" % pid,
            "thorough_cmd": "./vp check %s thorough" % pid,
            "evidence_file": "evidence/%s.json" % pid,
            "replay_cmd_template": "./vp replay {path}",
            "engine": "coq-model+correspondence",
            "level_claimed": {"category": "proof", "text": c["text"], "design_ref": "DESIGN.md section " + c["design"]},
            "level_note": c["note"],
            "technique": c["technique"],
        })
    na = [{"property_id": pid, "reason": NOT_YET.get(pid, "not claimed yet: the model covers it but the property theorems and the correspondence check are still being built (no technique switch; see DESIGN.md section 10)")}
          for pid in ALL if pid not in CLAIMED]
    m = {
        "version": 1,
        "setup_cmd": "./vp setup",
        "hooks": {
            "guard": "cargo feature `verif`",
            "enable": "the harness crate /verif/harness depends on txtpp = { path = \"/repo\", features = [\"verif\"] }; cargo build --release --offline",
            "baseline_off_cmd": "cd /repo && cargo test --workspace --no-fail-fast --offline",
            "source_commits": ["fbce8eb", "93647aa"],
            "add_only": True,
        },
        "engines": [
            {"name": "coq-model+correspondence", "path": "coq/ harness/ tools/ vp",
             "serves_properties": [c["property_id"] for c in checks],
             "kind_free_text": "Gallina model of txtpp with machine-checked theorems (Coq 8.16.1); model tied to the code by differential runs of the extracted model (OCaml) and vm_compute against the implementation built from /repo with the `verif` feature"},
        ],
        "checks": checks,
        "not_applicable": na,
        "notes": "Genuine defects repaired by `fix:` commits in /repo and one recorded finding are listed in known_findings.txt; see DESIGN.md section 7.",
    }
    json.dump(m, open(os.path.join(VERIF, "MANIFEST.json"), "w"), indent=1)
main()
