#!/usr/bin/env python3
"""Evaluate a seeded change (mutant) delivered by a sub-agent in a scratch worktree.

usage: seed_eval.py <seed id> <worktree> [check ids...]
 1. confirms the change in the worktree: builds (default + verif feature), the repository's test suite passes,
    the demonstration fails with the change and passes on /repo's unchanged tree;
 2. stores patch.diff / demo / meta.json under /verif/seeded/<seed id>/;
 3. applies the patch to /repo, runs the given checks (default: the property's own check, quick tier), restores /repo
    and the evidence files; records which checks raised a VIOLATION.
"""
import sys, os, json, subprocess, shutil, re, time
VERIF = os.path.dirname(os.path.dirname(os.path.abspath(__file__)))
ENV = dict(os.environ, CARGO_NET_OFFLINE="true")

def sh(cmd, cwd=None, timeout=3600):
    r = subprocess.run(cmd, shell=True, cwd=cwd, env=ENV, stdout=subprocess.PIPE, stderr=subprocess.STDOUT, text=True, timeout=timeout)
    return r.returncode, r.stdout

def main():
    sid, wt = sys.argv[1], sys.argv[2].rstrip("/")
    mut = os.path.join(wt, "MUTANT")
    meta = json.load(open(os.path.join(mut, "meta.json")))
    prop = meta.get("property", sid[:3])
    checks = sys.argv[3:] or [prop]
    dst = os.path.join(VERIF, "seeded", sid); os.makedirs(dst, exist_ok=True)
    ran = []
    # the patch must be exactly the worktree's source diff
    rc, diff = sh("git diff -- src Cargo.toml", cwd=wt)
    open(os.path.join(dst, "patch.diff"), "w").write(diff)
    if not diff.strip(): print("EMPTY PATCH"); return 2
    rc, out = sh("cargo build --offline 2>&1 | tail -2 && cargo build --offline --features verif 2>&1 | tail -2", cwd=wt)
    ran.append({"cmd": "cargo build --offline (default and --features verif) in the worktree with the change", "rc": rc})
    rc, out = sh("cargo test --workspace --no-fail-fast --offline 2>&1 | grep -E '^test result|FAILED' ", cwd=wt)
    passed = sum(int(x) for x in re.findall(r"(\d+) passed", out)); failed = sum(int(x) for x in re.findall(r"(\d+) failed", out))
    ran.append({"cmd": "cargo test --workspace --no-fail-fast --offline (with the change)", "passed": passed, "failed": failed})
    tests_ok = failed == 0 and passed >= 104
    demo_with = demo_without = None
    if os.path.exists(os.path.join(mut, "demo.sh")):
        shutil.copy(os.path.join(mut, "demo.sh"), os.path.join(dst, "demo.sh"))
        rc1, o1 = sh("bash MUTANT/demo.sh %s/target/debug/txtpp" % wt, cwd=wt, timeout=600)
        sh("cargo build --offline 2>&1 | tail -1", cwd="/repo")
        rc2, o2 = sh("bash %s/demo.sh /repo/target/debug/txtpp" % dst, cwd="/tmp", timeout=600)
        demo_with, demo_without = rc1, rc2
        ran.append({"cmd": "demo.sh with the change", "rc": rc1, "tail": o1[-300:]}); ran.append({"cmd": "demo.sh on the unchanged tree", "rc": rc2, "tail": o2[-200:]})
    elif os.path.exists(os.path.join(mut, "demo_test.rs")):
        shutil.copy(os.path.join(mut, "demo_test.rs"), os.path.join(dst, "demo_test.rs"))
        shutil.copy(os.path.join(mut, "demo_test.rs"), os.path.join(wt, "tests", "zz_demo_test.rs"))
        rc1, o1 = sh("cargo test --offline --features verif --test zz_demo_test 2>&1 | tail -15", cwd=wt, timeout=1200)
        sh("git stash -q -- src Cargo.toml", cwd=wt)
        rc2, o2 = sh("cargo test --offline --features verif --test zz_demo_test 2>&1 | tail -5", cwd=wt, timeout=1200)
        sh("git stash pop -q", cwd=wt)
        os.remove(os.path.join(wt, "tests", "zz_demo_test.rs"))
        f1 = "test result: FAILED" in o1 or "error" in o1.lower() and "test result: ok" not in o1
        f2 = "test result: ok" in o2
        demo_with, demo_without = (1 if f1 else 0), (0 if f2 else 1)
        ran.append({"cmd": "demo_test.rs with the change (cargo test --features verif)", "failed": f1, "tail": o1[-400:]})
        ran.append({"cmd": "demo_test.rs without the change", "passed": f2, "tail": o2[-200:]})
    confirmed = tests_ok and demo_with not in (0, None) and demo_without == 0
    # run my checks against it
    results = {}
    rc, out = sh("git -C /repo status --porcelain -- src Cargo.toml")
    if out.strip(): print("/repo is not clean:", out); return 2
    rc, out = sh("git -C /repo apply %s" % os.path.join(dst, "patch.diff"))
    if rc != 0: print("patch does not apply to /repo:", out); return 2
    try:
        for c in checks:
            t0 = time.time()
            rc, out = sh("./vp check %s quick" % c, cwd=VERIF, timeout=3000)
            viol = [l for l in out.split("\n") if l.startswith("VIOLATION")]
            results[c] = {"exit": rc, "violation_lines": viol[:3], "seconds": round(time.time() - t0, 1), "tail": out.strip().split("\n")[-1][:200]}
            # keep the first replay as an example of what the check reports
            if viol:
                m = re.search(r"replay=(\S+)", viol[0])
                if m and os.path.exists(m.group(1)):
                    shutil.copy(m.group(1), os.path.join(dst, "replay_%s.json" % c))
    finally:
        sh("git -C /repo checkout -- .")
        sh("git -C %s checkout -- evidence" % VERIF)
        sh("./vp setup", cwd=VERIF)        # leave the harness and the CLI built from the unchanged tree
    meta_out = {"property": prop, "seed_id": sid, "summary": meta.get("summary"), "needs_to_manifest": meta.get("needs_to_manifest"),
                "files_changed": meta.get("files_changed"), "agent_ran": meta.get("ran"), "confirmed_by_me": {"ok": confirmed, "ran": ran},
                "my_checks": results, "caught_by": [c for c, r in results.items() if r["exit"] == 1 and r["violation_lines"]]}
    json.dump(meta_out, open(os.path.join(dst, "meta.json"), "w"), indent=1)
    print(json.dumps({"seed": sid, "confirmed": confirmed, "tests": [passed, failed], "demo_with/without": [demo_with, demo_without],
                      "checks": {c: (r["exit"], len(r["violation_lines"]), r["seconds"]) for c, r in results.items()}}, indent=0))
    return 0
sys.exit(main())
