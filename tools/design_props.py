#!/usr/bin/env python3
"""Rewrites the '*As built (generated from `coq/props.src`).*' paragraph of every property subsection in DESIGN.md section 6
from coq/props.src/Cxx.txt (theorem := lemma pairs)."""
import re, os
VERIF = os.path.dirname(os.path.dirname(os.path.abspath(__file__)))
p = os.path.join(VERIF, "DESIGN.md"); s = open(p).read()
for k in range(1, 19):
    pid = "C%02d" % k
    src = open(os.path.join(VERIF, "coq", "props.src", pid + ".txt")).read()
    pairs = re.findall(r"^([A-Za-z_0-9']+) := ([A-Za-z_0-9'.]+)\s*$", src, re.M)
    para = "*As built (generated from `coq/props.src`).* Property theorems of `props/%s.v` (theorem := lemma it is closed with): " % pid + \
           "; ".join("`%s` := `%s`" % (a, b) for a, b in pairs) + "."
    m = re.search(r"\*As built \(generated from `coq/props\.src`\)\.\* Property theorems of `props/%s\.v`[^\n]*" % pid, s)
    if not m: print("no paragraph for", pid); continue
    s = s[:m.start()] + para + s[m.end():]
    print(pid, len(pairs))
open(p, "w").write(s)
