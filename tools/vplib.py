"""vplib — shared plumbing for the checks of /verif (see DESIGN.md section 5).

Case format (one token-separated line per record; bytes are 'x' + two hex digits per byte):
  D <line>                                   Directive::detect_from
  A <ws> <prefix> <ty> <arg,arg,...> <line>  Directive::add_line     (ty in E I A R G T W)
  T <le> <op>...                             TagState ops: c<name> create, s<content> try_store, i<line> inject_tags
  N <path>                                   is_txtpp_file / remove_txtpp
  L <bytes>                                  lines / line ending / UTF-8 validity
  R <id>  ... E                              a whole project (or one pass of one file):
     m <mode 0-3> <trailing> <recursive> <threads>      b <base path>     w <process cwd>
     i <input>   f <path> <content>   d <dir path>   l <link path> <target>
     c <cmd> <status> <stdout>   (oracle entry; the implementation runs the real command)
     s <n>...    (controlled schedule)      p <source path> <first 0/1>   (single pass)
Both the Rust harness (implementation) and the OCaml driver (extracted Coq model) read this
format and print one canonical observation line per case.
"""
import os, sys, json, subprocess, time, random, hashlib, re, shutil

VERIF = os.path.dirname(os.path.dirname(os.path.abspath(__file__)))
REPO = os.environ.get("VP_REPO", "/repo")
COQ = os.path.join(VERIF, "coq")
HARNESS = os.path.join(VERIF, "harness")
VPH = os.path.join(HARNESS, "target", "release", "vph")
DRIVER = os.path.join(COQ, "extract", "driver")
CLI_TARGET = os.path.join(VERIF, ".cache", "target-cli")
CLI = os.path.join(CLI_TARGET, "release", "txtpp")
NCPU = min(16, os.cpu_count() or 4)

def hx(b):
    if isinstance(b, str): b = b.encode("utf-8")
    return "x" + b.hex()
def unhx(t):
    assert t.startswith("x"), t
    return bytes.fromhex(t[1:])

ENV = dict(os.environ, CARGO_NET_OFFLINE="true")

def sh(cmd, cwd=None, timeout=None, check=True, env=None, quiet=False):
    r = subprocess.run(cmd, shell=isinstance(cmd, str), cwd=cwd, timeout=timeout, env=env or ENV,
                       stdout=subprocess.PIPE, stderr=subprocess.STDOUT, text=True, errors="replace")
    if check and r.returncode != 0:
        if not quiet:
            sys.stdout.write(r.stdout[-4000:] + "\n")
        raise RuntimeError("command failed (%d): %s" % (r.returncode, cmd if isinstance(cmd, str) else " ".join(cmd)))
    return r

# ---------------------------------------------------------------- SplitMix64
class Rng:
    def __init__(self, seed): self.s = seed & 0xFFFFFFFFFFFFFFFF
    def next(self):
        self.s = (self.s + 0x9E3779B97F4A7C15) & 0xFFFFFFFFFFFFFFFF
        z = self.s
        z = ((z ^ (z >> 30)) * 0xBF58476D1CE4E5B9) & 0xFFFFFFFFFFFFFFFF
        z = ((z ^ (z >> 27)) * 0x94D049BB133111EB) & 0xFFFFFFFFFFFFFFFF
        return z ^ (z >> 31)
    def below(self, n): return self.next() % n
    def choice(self, l): return l[self.below(len(l))]
    def chance(self, num, den): return self.below(den) < num
    def shuffle(self, l):
        l = list(l)
        for i in range(len(l) - 1, 0, -1):
            j = self.below(i + 1); l[i], l[j] = l[j], l[i]
        return l
    def fork(self, tag):
        h = hashlib.sha256(("%d/%s" % (self.s, tag)).encode()).digest()
        return Rng(int.from_bytes(h[:8], "big"))

def seed():
    try: return int(os.environ.get("VERIF_SEED", "20260930"))
    except ValueError: return 20260930
def tier(default="quick"):
    t = os.environ.get("VERIF_TIER", default)
    return t if t in ("quick", "thorough") else default

# ---------------------------------------------------------------- running both sides
def _run_tool(binary, text, timeout, env=None):
    r = subprocess.run([binary], input=text, stdout=subprocess.PIPE, stderr=subprocess.PIPE, text=True,
                       timeout=timeout, env=env or os.environ)
    return r.returncode, r.stdout.split("\n"), r.stderr

def split_cases(lines):
    """group case text lines into cases (R..E blocks are one case)"""
    cases, cur = [], None
    for l in lines:
        if cur is not None:
            cur.append(l)
            if l == "E": cases.append("\n".join(cur)); cur = None
        elif l.startswith("R "):
            cur = [l]
        elif l.strip():
            cases.append(l)
    assert cur is None
    return cases

def run_sharded(binary, cases, shards=NCPU, timeout=600, restart_on_exit=False, env=None):
    """run `cases` (list of case texts) through `binary` in parallel shards; returns list of output lines"""
    import concurrent.futures as cf
    n = len(cases)
    if n == 0: return []
    shards = max(1, min(shards, n))
    bounds = [(n * i // shards, n * (i + 1) // shards) for i in range(shards)]
    def work(lo_hi):
        lo, hi = lo_hi
        out = []
        pos = lo
        restarts = 0
        while pos < hi:
            rc, lines, err = _run_tool(binary, "\n".join(cases[pos:hi]) + "\n", timeout, env)
            lines = [l for l in lines if l != ""]
            out.extend(lines)
            pos += len(lines)
            if rc == 0: break
            if not restart_on_exit or len(lines) == 0:
                raise RuntimeError("%s failed (rc=%d) after %d cases: %s" % (binary, rc, len(lines), err[-2000:]))
            restarts += 1
            if restarts >= 4 and pos < hi:
                # the implementation keeps getting stuck (each stuck run costs a watchdog period): do not wait for every remaining
                # case of this shard; report them as not run (verdict `aborted`), which every check treats as a failed observation
                out.extend(["R aborted aborted F  U  M " if c.startswith("R ") else c.split(" ")[0] + " aborted" for c in cases[pos:hi]])
                pos = hi
        if len(out) != hi - lo:
            raise RuntimeError("%s: %d outputs for %d cases" % (binary, len(out), hi - lo))
        return out
    with cf.ThreadPoolExecutor(max_workers=shards) as ex:
        parts = list(ex.map(work, bounds))
    return [l for p in parts for l in p]

def run_impl(cases, **kw):
    kw.setdefault("restart_on_exit", True)
    return run_sharded(VPH, cases, **kw)
def run_model(cases, **kw):
    return run_sharded(DRIVER, cases, **kw)

# ---------------------------------------------------------------- project cases
class Project:
    def __init__(self, pid):
        self.id = str(pid); self.mode = 0; self.trailing = True; self.recursive = False; self.threads = 4
        self.base = "/"; self.cwd = None; self.inputs = []; self.files = []; self.dirs = []; self.links = []
        self.cmds = []; self.sched = None; self.pp = None; self.permissive = False
    def copy(self):
        import copy; return copy.deepcopy(self)
    def text(self):
        L = ["R " + self.id,
             "m %d %d %d %d" % (self.mode, int(self.trailing), int(self.recursive), self.threads),
             "b " + hx(self.base)]
        if self.cwd is not None: L.append("w " + hx(self.cwd))
        for i in self.inputs: L.append("i " + hx(i))
        alld = set()
        for q in list(self.dirs) + [f for f, _ in self.files] + [l for l, _ in self.links]:
            parts = [x for x in q.split("/") if x]
            if q in self.dirs: alld.add("/" + "/".join(parts))
            for i in range(1, len(parts)): alld.add("/" + "/".join(parts[:i]))
        for d in sorted(alld): L.append("d " + hx(d))
        for (p, c) in self.files: L.append("f %s %s" % (hx(p), hx(c)))
        for (l, t) in self.links: L.append("l %s %s" % (hx(l), hx(t)))
        for (c, st, out) in self.cmds: L.append("c %s %d %s" % (hx(c), st, hx(out)))
        if self.permissive: L.append("o 1")
        if self.sched is not None: L.append("s " + " ".join(str(x) for x in self.sched))
        if getattr(self, "idle", False): L.append("y 1")
        if self.pp is not None: L.append("p %s %d" % (hx(self.pp[0]), int(self.pp[1])))
        L.append("E")
        return "\n".join(L)
    def to_json(self):
        return {"id": self.id, "mode": ["build", "needed", "clean", "verify"][self.mode], "trailing_newline": self.trailing,
                "recursive": self.recursive, "threads": self.threads, "base": self.base, "cwd": self.cwd,
                "inputs": self.inputs, "dirs": self.dirs,
                "files": {p: (c.decode("utf-8", "backslashreplace") if isinstance(c, bytes) else c) for p, c in self.files},
                "commands": [{"cmd": c, "status": st, "stdout": (o.decode("utf-8", "backslashreplace") if isinstance(o, bytes) else o)} for c, st, o in self.cmds],
                "schedule": self.sched, "single_pass": self.pp, "case_text": self.text()}

def parse_obs(line):
    """R <id> <verdict> [T trace] [N choices] F files U touched [C runs | M marks]  -> dict"""
    t = line.split(" ")
    o = {"raw": line, "id": t[1], "verdict": t[2], "T": "", "N": "", "F": {}, "U": [], "C": [], "M": {}, "K": ""}
    i = 3
    key = None
    while i < len(t):
        if t[i] in ("T", "N", "F", "U", "C", "M", "K"):
            key = t[i]; val = t[i + 1] if i + 1 < len(t) and t[i + 1] not in ("T", "N", "F", "U", "C", "M", "K") else ""
            if key == "F":
                for e in filter(None, val.split(";")):
                    k, v = e.split("=", 1); o["F"][unhx(k).decode("utf-8", "replace")] = (None if v == "/" else unhx(v))
            elif key == "U": o["U"] = sorted(unhx(e).decode("utf-8", "replace") for e in filter(None, val.split(";")))
            elif key == "C": o["C"] = [e for e in filter(None, val.split(";"))]
            elif key == "M":
                for e in filter(None, val.split(";")):
                    k, v = e.split("=", 1); o["M"][k] = unhx(v)
            else: o[key] = val
            i += 2 if val != "" else 1
        else:
            i += 1
    return o

def trace_list(o):
    return [x for x in o["T"].split(",") if x]

# ---------------------------------------------------------------- evidence / violations
def write_evidence(pid, tier_, seed_, coverage, wall, violations=0, assumptions=None, level="proof"):
    os.makedirs(os.path.join(VERIF, "evidence"), exist_ok=True)
    ev = {"property_id": pid, "tier": tier_, "seed": seed_, "level": level, "coverage": coverage,
          "assumptions": assumptions or [], "wall_s": round(wall, 2), "violations": violations}
    with open(os.path.join(VERIF, "evidence", pid + ".json"), "w") as f:
        json.dump(ev, f, indent=1, sort_keys=True, default=str)

def write_replay(pid, obj):
    d = os.path.join(VERIF, "replays", pid); os.makedirs(d, exist_ok=True)
    blob = json.dumps(obj, indent=1, sort_keys=True, default=str)
    h = hashlib.sha256(blob.encode()).hexdigest()[:12]
    path = os.path.join(d, h + ".json")
    with open(path, "w") as f: f.write(blob)
    return path

# ---------------------------------------------------------------- the command oracle
_CMD_CACHE = {}
def eval_command(cmd):
    """(status, stdout) of `sh -c cmd` in an empty scratch directory; @M@ is a scratch marker directory.
    Only for the pure command family of the generators (DESIGN.md D4)."""
    if cmd in _CMD_CACHE: return _CMD_CACHE[cmd]
    if "\x00" in cmd:
        # std::process::Command refuses an argument with an interior NUL: the directive fails
        _CMD_CACHE[cmd] = (1, b""); return _CMD_CACHE[cmd]
    import tempfile
    d = tempfile.mkdtemp(prefix="vp-orc-", dir=os.environ.get("VP_TMP", "/dev/shm"))
    try:
        os.makedirs(os.path.join(d, "m")); os.makedirs(os.path.join(d, "w"))
        real = cmd.replace("@M@", os.path.join(d, "m")).replace("@R@", os.path.join(d, "w"))
        env = dict(os.environ); env["TXTPP_FILE"] = "oracle"
        r = subprocess.run(["sh", "-c", real], cwd=os.path.join(d, "w"), stdout=subprocess.PIPE, stderr=subprocess.DEVNULL,
                           stdin=subprocess.DEVNULL, timeout=20, env=env)
        res = (0 if r.returncode == 0 else 1, r.stdout if r.returncode == 0 else b"")
    finally:
        shutil.rmtree(d, ignore_errors=True)
    _CMD_CACHE[cmd] = res
    return res

BUILTIN_CMDS = ("pwd -P", 'printf %s "$TXTPP_FILE"')

def complete_oracles(projects):
    """phase 1: run the model with a permissive oracle to learn which command strings the sources really
    contain (continuation lines can extend a command); evaluate each once with sh; fill in p.cmds."""
    todo = [p for p in projects]
    modes = [p.mode for p in todo]
    # discover in Build mode: a verify sink would stop at the first (empty-output) mismatch and hide later commands
    for p in todo: p.permissive = True; p.cmds = []; p.mode = 0
    outs = run_model([p.text() for p in todo])
    for p, o, m in zip(todo, outs, modes):
        p.permissive = False; p.mode = m
        cmds = []
        for e in parse_obs(o)["C"]:
            c = unhx(e.split("@")[0]).decode("utf-8", "replace")
            if c not in cmds and c not in BUILTIN_CMDS: cmds.append(c)
        p.cmds = [(c,) + eval_command(c) for c in cmds]

# ---------------------------------------------------------------- both sides, histories
def both(projects, oracle=True, impl_kw=None):
    """run the projects on the implementation and on the model; returns (impl_obs, model_obs) as parsed dicts"""
    if oracle: complete_oracles(projects)
    cases = [p.text() for p in projects]
    impl = run_impl(cases, **(impl_kw or {}))
    model = run_model(cases)
    return [parse_obs(x) for x in impl], [parse_obs(x) for x in model]

def tree_of(obs):
    """(files, dirs) of an observation's final tree"""
    files = [(k, v) for k, v in sorted(obs["F"].items()) if v is not None]
    dirs = [k for k, v in sorted(obs["F"].items()) if v is None]
    return files, dirs

def follow(p, obs, pid=None):
    """a copy of project p whose tree is the final tree of obs (next step of a history)"""
    q = p.copy()
    if pid is not None: q.id = str(pid)
    q.files, q.dirs = tree_of(obs)
    return q

def model_marks(obs):
    """marker-file contents implied by the model's command log (C list): every executed command of the form
    `printf x >> @M@/<name>; ...` appends one x to <name>"""
    out = {}
    for e in obs["C"]:
        c = unhx(e.split("@")[0]).decode("utf-8", "replace")
        for m in re.finditer(r"printf x >> @M@/(\w+)", c):
            out[m.group(1)] = out.get(m.group(1), b"") + b"x"
    return out

def short(b, n=200):
    if b is None: return None
    s = b.decode("utf-8", "backslashreplace")
    return s if len(s) <= n else s[:n] + "...(%d bytes)" % len(b)

def obs_summary(o):
    return {"verdict": o["verdict"], "files": {k: short(v) for k, v in o["F"].items() if v is not None},
            "touched": o["U"], "trace": [t for t in o["T"].split(",") if t][:40], "marks": {k: short(v) for k, v in o["M"].items()}}

# ---------------------------------------------------------------- vm_compute cross-check of whole-project cases
def _coq_str(b):
    if isinstance(b, str): b = b.encode("utf-8")
    return "[" + ";".join(str(x) for x in b) + "]"
def _coq_path(p):
    return "[" + ";".join(_coq_str(c) for c in p.split("/") if c) + "]"

def vm_crosscheck_projects(projects, model_obs, limit=3):
    """re-evaluate up to `limit` (small) project cases with vm_compute inside coqc and compare with what the
    extracted evaluator printed. Returns (number checked, list of mismatches)."""
    picked = []
    for p, o in zip(projects, model_obs):
        if p.pp is not None or p.sched is None: continue
        if sum(len(c) for _, c in p.files) > 1500 or len(trace_list(o)) > 9: continue
        if any(c in BUILTIN_CMDS for c, _, _ in p.cmds): continue
        picked.append((p, o))
        if len(picked) >= limit: break
    if not picked: return 0, []
    L = ["Require Import Txtpp.Str Txtpp.Path Txtpp.Fs Txtpp.Sink Txtpp.Pp Txtpp.Dep Txtpp.Coord Txtpp.Run Txtpp.Crosscheck.", "Open Scope N_scope."]
    for p, o in picked:
        alld = set()
        for q in list(p.dirs) + [f for f, _ in p.files]:
            parts = [x for x in q.split("/") if x]
            if q in p.dirs: alld.add("/" + "/".join(parts))
            for i in range(1, len(parts)): alld.add("/" + "/".join(parts[:i]))
        # the driver builds the tree in the order: dirs (sorted) then files; later entries first (List.rev of a prepend)... order is irrelevant for look-ups
        fs = ["(%s, Dir)" % _coq_path(d) for d in sorted(alld)] + ["(%s, File %s)" % (_coq_path(f), _coq_str(c)) for f, c in p.files]
        tbl = ["(%s, %s)" % (_coq_str(c), ("Some " + _coq_str(out)) if st == 0 else "None") for c, st, out in p.cmds]
        cfg = "mkCfg %s [%s] %s %d %s %s" % (_coq_path(p.base), ";".join(_coq_str(i) for i in p.inputs), "true" if p.recursive else "false",
                                             p.threads, ["Build", "InMemoryBuild", "Clean", "Verify"][p.mode], "true" if p.trailing else "false")
        trace = []
        for t in trace_list(o):
            k, h = t.split(":"); trace.append("(%d, %s)" % ({"s": 0, "p1": 1, "p2": 2}[k], _coq_path(unhx(h).decode())))
        tree = ["(%s, %s)" % (_coq_path(k), "Dir" if v is None else "File " + _coq_str(v)) for k, v in sorted(o["F"].items())]
        v = {"ok": 0, "err": 1, "panic": 2, "fuel": 3}[o["verdict"]]
        fuel = 4 * len(p.files) + 16
        L.append("Eval vm_compute in (matches (txtpp_run (table_oracle [%s]) (%s) %d%%nat [%s]%%nat (mkW [%s] [])) %d [%s] [%s])." %
                 (";".join(tbl), cfg, fuel, ";".join(str(x) for x in p.sched), ";".join(reversed(fs)), v, ";".join(trace), ";".join(tree)))
    d = os.path.join(VERIF, ".cache"); os.makedirs(d, exist_ok=True)
    f = os.path.join(d, "xcheck_%d.v" % os.getpid())
    open(f, "w").write("\n".join(L) + "\n")
    r = sh("coqc -noglob -Q %s Txtpp %s" % (os.path.join(COQ, "theories"), f), check=False, timeout=900)
    for ext in (".vo", ".vok", ".vos", ".glob"):
        try: os.remove(f[:-2] + ext)
        except OSError: pass
    if r.returncode != 0:
        return 0, [("coqc failed on " + f, r.stdout[-800:])]
    os.remove(f)
    res = re.findall(r"=\s*(true|false)\s*:\s*bool", r.stdout)
    bad = [(p.id, "vm_compute disagrees with the extracted evaluator") for (p, o), x in zip(picked, res) if x != "true"]
    if len(res) != len(picked): bad.append(("?", "could not parse coqc output: " + r.stdout[-300:]))
    return len(picked), bad
