"""Per-property correspondence checks (DESIGN.md sections 5 and 6).

Each check_Cxx(tier, seed, consts_ok, consts_detail) returns a dict:
  coverage   : extra keys for the evidence file (evaluations, distinct_nontrivial, rule, samples, ...)
  violations : list of {"replay": obj, "found": bool}
  known      : list of strings printed as KNOWN-FINDING lines
"""
import itertools, collections
from vplib import *   # noqa

# ------------------------------------------------------------------ helpers
def diff_cases(cases, impl, model, norm_i=None, norm_m=None):
    """indices where the (normalised) observations differ"""
    bad = []
    for k, (a, b) in enumerate(zip(impl, model)):
        x = norm_i(a) if norm_i else a
        y = norm_m(b) if norm_m else b
        if x != y: bad.append(k)
    return bad

def decode_case(c):
    """human-readable rendering of a single-line case"""
    t = c.split(" ")
    out = [t[0]]
    for x in t[1:]:
        if x.startswith("x"):
            try: out.append(repr(unhx(x).decode("utf-8")))
            except Exception: out.append(x)
        elif len(x) > 1 and x[0] in "csi" and x[1] == "x":
            out.append(x[0] + ":" + repr(unhx(x[1:]).decode("utf-8", "replace")))
        elif "," in x and all(y.startswith("x") for y in x.split(",")):
            out.append("[" + ",".join(repr(unhx(y).decode("utf-8", "replace")) for y in x.split(",")) + "]")
        else: out.append(x)
    return " ".join(out)

def vm_crosscheck(cases, model_out, rng, n=50):
    """re-evaluate a sample of single-line D/A cases with vm_compute inside coqc and
    compare with the extracted evaluator's answers (cross-checks extraction + driver)."""
    idx = [k for k, c in enumerate(cases) if c.startswith("D ")]
    if not idx: return 0, []
    pick = [idx[rng.below(len(idx))] for _ in range(min(n, len(idx)))]
    def coq_str(b): return "[" + ";".join(str(x) for x in b) + "]%N"
    body = ["Require Import Txtpp.Str Txtpp.Grammar.", "Open Scope N_scope."]
    for k in pick:
        b = unhx(cases[k].split(" ")[1])
        body.append("Eval vm_compute in (detect_from %s)." % coq_str(b))
    d = os.path.join(VERIF, ".cache"); os.makedirs(d, exist_ok=True)
    f = os.path.join(d, "cases_%d.v" % os.getpid())
    open(f, "w").write("\n".join(body) + "\n")
    r = sh("coqc -noglob -Q %s Txtpp %s" % (os.path.join(COQ, "theories"), f), check=False, timeout=600)
    for ext in (".v", ".vo", ".vok", ".vos", ".glob"):
        try: os.remove(f[:-2] + ext)
        except OSError: pass
    if r.returncode != 0:
        return 0, [("coqc failed", r.stdout[-500:])]
    # parse results: each "= None" or "= Some {| d_ws := ...|}" possibly multi-line, ends with ": option directive"
    chunks = re.split(r"\n\s*: option directive\s*", r.stdout)
    chunks = [c for c in chunks if "=" in c]
    bad = []
    def nums(s): return [int(x) for x in re.findall(r"\d+", s)]
    for k, ch in zip(pick, chunks):
        m = model_out[k]
        txt = " ".join(ch.split())
        if m == "D -":
            if "None" not in txt: bad.append((cases[k], txt, m))
            continue
        mm = re.search(r"d_ws := (.*?); d_prefix := (.*?); d_ty := (\w+); d_args := \[(.*)\] \|\}", txt)
        if not mm: bad.append((cases[k], txt, m)); continue
        t = m.split(" ")
        tyname = {"E": "DEmpty", "I": "DInclude", "A": "DAfter", "R": "DRun", "G": "DTag", "T": "DTemp", "W": "DWrite"}[t[3]]
        exp = (list(unhx(t[1])), list(unhx(t[2])), tyname, list(unhx(t[4])))
        got = (nums(mm.group(1)), nums(mm.group(2)), mm.group(3), nums(mm.group(4)))
        if exp != got: bad.append((cases[k], txt, m))
    return len(pick), bad

# ------------------------------------------------------------------ C15 grammar
TOKENS = [" ", "\t", " ", "　", "-", "//", "/* ", "TXTPP#", "TXTPP", "#", "include", "after", "run",
          "temp", "tag", "write", "runx", "Run", "x", "é", "T1", "T12"]

def token_lines(bound):
    seen = set()
    for n in range(bound + 1):
        for combo in itertools.product(TOKENS, repeat=n):
            s = "".join(combo)
            if s not in seen:
                seen.add(s); yield s

def check_C15(tier_, sd, consts_ok, consts_detail):
    rng = Rng(sd).fork("C15")
    bound = 4 if tier_ == "quick" else 5
    lines = list(token_lines(bound))
    dcases = ["D " + hx(l) for l in lines]
    impl = run_impl(dcases); model = run_model(dcases)
    bad = diff_cases(dcases, impl, model)
    detected = [k for k, m in enumerate(model) if m != "D -"]
    # continuation pairs: distinct (ws, prefix, type) of detected directives with <= 3 tokens ...
    dirs = collections.OrderedDict()
    for k in detected:
        t = model[k].split(" ")
        key = (t[1], t[2], t[3])
        if key not in dirs: dirs[key] = t[4]
    dirlist = list(dirs.items())
    if tier_ == "quick" and len(dirlist) > 1500:
        keep = rng.shuffle(range(len(dirlist)))[:1500]
        dirlist = [dirlist[i] for i in sorted(keep)]
    acases = []
    for (ws, pre, ty), arg in dirlist:
        w = unhx(ws).decode(); p = unhx(pre).decode()
        pb = len(p.encode())
        ws_alts = [w, w + " ", w[:-1] if w else "\t", w.replace(" ", "\t", 1) if " " in w else w + " "]
        pre_alts = [p, " " * pb, " " * (pb + 1), " " * max(pb - 1, 0), p.rstrip(), p.rstrip() + "x", p[:-1] if p else "q",
                    " " * len(p), p.upper() if p.upper() != p else p + p]
        rests = ["", "arg", " arg  ", "a\tb\t", "é　", "TXTPP#run x"]
        n = 0
        for wa in ws_alts:
            for pa in pre_alts:
                for r in rests:
                    # a deterministic thinning keeps the quick tier in budget while every (ws, prefix) form is still paired with every rest
                    n += 1
                    if tier_ == "quick" and wa != w and (n % 3) != 0: continue
                    acases.append("A %s %s %s %s %s" % (ws, pre, ty, arg, hx(wa + pa + r)))
    acases = list(collections.OrderedDict.fromkeys(acases))
    aimpl = run_impl(acases); amodel = run_model(acases)
    abad = diff_cases(acases, aimpl, amodel)
    # cross-check extraction against the kernel's evaluator on a sample
    nvm, vmbad = vm_crosscheck(dcases, model, rng, 60)
    # end-to-end sample through whole-file runs: a line is kept in the output iff it is not a directive / continuation
    e2e_cases, e2e_meta = [], []
    sample = [lines[rng.below(len(lines))] for _ in range(150 if tier_ == "quick" else 600)]
    for j, l in enumerate(sample):
        p = Project("e%d" % j); p.files = [("/s.txt.txtpp", ("top\n" + l + "\nzz-end\n").encode())]; p.inputs = ["s.txt"]
        p.pp = ("/s.txt.txtpp", False)
        e2e_cases.append(p.text()); e2e_meta.append(l)
    eimpl = run_impl(e2e_cases); emodel = run_model(e2e_cases)
    def norm_e(o):
        d = parse_obs(o); return (d["verdict"], d["F"].get("/s.txt"))
    ebad = [k for k in range(len(e2e_cases)) if norm_e(eimpl[k]) != norm_e(emodel[k])]

    violations = []
    def mk(kind, case, i, m):
        return {"found": True, "replay": {"property": "C15", "kind": kind, "correspondence": "Grammar.%s vs Directive::%s" % (kind, kind),
                "theorem": "detect_from_iff / add_line_iff: the model's answer is the documented grammar's",
                "case": case, "case_readable": decode_case(case) if not case.startswith("R ") else None,
                "expected_by_documented_grammar(model)": m, "implementation": i}}
    for k in bad[:5]: violations.append(mk("detect_from", dcases[k], impl[k], model[k]))
    for k in abad[:5]: violations.append(mk("add_line", acases[k], aimpl[k], amodel[k]))
    for k in ebad[:5]: violations.append(mk("whole-file line kept vs consumed", e2e_cases[k], eimpl[k], emodel[k]))
    for b in vmbad[:3]:
        violations.append({"found": False, "replay": {"property": "C15", "broken": "extracted evaluator disagrees with vm_compute", "detail": b}})
    kinds = collections.Counter(m.split(" ")[3] if m != "D -" else "-" for m in model)
    akinds = collections.Counter(m.split(" ")[1] for m in amodel)
    cov = {
        "evaluations": len(dcases) + len(acases) + len(e2e_cases),
        "distinct_nontrivial": len(set(model[k] for k in detected)) + len(set(a for a in amodel if a != "A stop")),
        "rule": "every concatenation of <= %d tokens from a %d-token alphabet (white space incl. U+00A0/U+3000, prefixes, TXTPP#, near-miss names) through detect_from; "
                "every distinct detected (whitespace, prefix, type) x whitespace/prefix/remainder variants through add_line; "
                "non-trivial = distinct observation that is a detected directive or an accepted continuation" % (bound, len(TOKENS)),
        "exhaustive": True,
        "exhaustive_bound": "lines of <= %d tokens" % bound,
        "samples": [decode_case(dcases[detected[len(detected) // 3]]), decode_case(acases[len(acases) // 2])] if detected and acases else [],
        "detect_cases": len(dcases), "detect_distribution": dict(kinds),
        "addline_cases": len(acases), "addline_distribution": dict(akinds),
        "whole_file_cases": len(e2e_cases),
        "vm_compute_crosschecked": nvm,
        "disagreements": len(bad) + len(abad) + len(ebad),
    }
    return {"coverage": cov, "violations": violations}

# ------------------------------------------------------------------ replay
def replay(path):
    obj = json.load(open(path))
    case = obj.get("case")
    if not case:
        print("replay: this file names a broken theorem/correspondence, there is no concrete case"); return 1
    import vp_build  # noqa
    return 0
