"""Per-property correspondence checks (DESIGN.md sections 5 and 6).

Each check_Cxx(tier, seed, consts_ok, consts_detail) returns a dict:
  coverage   : extra keys for the evidence file (evaluations, distinct_nontrivial, rule, samples, ...)
  violations : list of {"replay": obj, "found": bool}
  known      : list of strings printed as KNOWN-FINDING lines
"""
import itertools, collections
from vplib import *   # noqa

# ------------------------------------------------------------------ helpers
def diff_cases(cases, impl, model, norm_i=None, norm_m=None):
    """indices where the (normalised) observations differ"""
    bad = []
    for k, (a, b) in enumerate(zip(impl, model)):
        x = norm_i(a) if norm_i else a
        y = norm_m(b) if norm_m else b
        if x != y: bad.append(k)
    return bad

def decode_case(c):
    """human-readable rendering of a single-line case"""
    t = c.split(" ")
    out = [t[0]]
    for x in t[1:]:
        if x.startswith("x"):
            try: out.append(repr(unhx(x).decode("utf-8")))
            except Exception: out.append(x)
        elif len(x) > 1 and x[0] in "csi" and x[1] == "x":
            out.append(x[0] + ":" + repr(unhx(x[1:]).decode("utf-8", "replace")))
        elif "," in x and all(y.startswith("x") for y in x.split(",")):
            out.append("[" + ",".join(repr(unhx(y).decode("utf-8", "replace")) for y in x.split(",")) + "]")
        else: out.append(x)
    return " ".join(out)

def vm_crosscheck(cases, model_out, rng, n=50):
    """re-evaluate a sample of single-line D/A cases with vm_compute inside coqc and
    compare with the extracted evaluator's answers (cross-checks extraction + driver)."""
    idx = [k for k, c in enumerate(cases) if c.startswith("D ")]
    if not idx: return 0, []
    pick = [idx[rng.below(len(idx))] for _ in range(min(n, len(idx)))]
    def coq_str(b): return "[" + ";".join(str(x) for x in b) + "]%N"
    body = ["Require Import Txtpp.Str Txtpp.Grammar.", "Open Scope N_scope."]
    for k in pick:
        b = unhx(cases[k].split(" ")[1])
        body.append("Eval vm_compute in (detect_from %s)." % coq_str(b))
    d = os.path.join(VERIF, ".cache"); os.makedirs(d, exist_ok=True)
    f = os.path.join(d, "cases_%d.v" % os.getpid())
    open(f, "w").write("\n".join(body) + "\n")
    r = sh("coqc -noglob -Q %s Txtpp %s" % (os.path.join(COQ, "theories"), f), check=False, timeout=600)
    for ext in (".v", ".vo", ".vok", ".vos", ".glob"):
        try: os.remove(f[:-2] + ext)
        except OSError: pass
    if r.returncode != 0:
        return 0, [("coqc failed", r.stdout[-500:])]
    # parse results: each "= None" or "= Some {| d_ws := ...|}" possibly multi-line, ends with ": option directive"
    chunks = re.split(r"\n\s*: option directive\s*", r.stdout)
    chunks = [c for c in chunks if "=" in c]
    bad = []
    def nums(s): return [int(x) for x in re.findall(r"\d+", s)]
    for k, ch in zip(pick, chunks):
        m = model_out[k]
        txt = " ".join(ch.split())
        if m == "D -":
            if "None" not in txt: bad.append((cases[k], txt, m))
            continue
        mm = re.search(r"d_ws := (.*?); d_prefix := (.*?); d_ty := (\w+); d_args := \[(.*)\] \|\}", txt)
        if not mm: bad.append((cases[k], txt, m)); continue
        t = m.split(" ")
        tyname = {"E": "DEmpty", "I": "DInclude", "A": "DAfter", "R": "DRun", "G": "DTag", "T": "DTemp", "W": "DWrite"}[t[3]]
        exp = (list(unhx(t[1])), list(unhx(t[2])), tyname, list(unhx(t[4])))
        got = (nums(mm.group(1)), nums(mm.group(2)), mm.group(3), nums(mm.group(4)))
        if exp != got: bad.append((cases[k], txt, m))
    return len(pick), bad

# ------------------------------------------------------------------ C15 grammar
TOKENS = [" ", "\t", " ", "　", "-", "//", "/* ", "TXTPP#", "TXTPP", "#", "include", "after", "run",
          "temp", "tag", "write", "runx", "Run", "x", "é", "T1", "T12"]

def token_lines(bound):
    seen = set()
    for n in range(bound + 1):
        for combo in itertools.product(TOKENS, repeat=n):
            s = "".join(combo)
            if s not in seen:
                seen.add(s); yield s

def check_C15(tier_, sd, consts_ok, consts_detail):
    rng = Rng(sd).fork("C15")
    bound = 4 if tier_ == "quick" else 5
    lines = list(token_lines(4))
    dcases = ["D " + hx(l) for l in lines]
    impl = run_impl(dcases); model = run_model(dcases)
    bad = diff_cases(dcases, impl, model)
    extra_detect = 0; extra_bad = []
    if bound == 5:
        # thorough: all 5-token lines, streamed in 22 shards (one per first token) to bound memory; only disagreements are kept
        seen4 = set(lines)
        for t0 in TOKENS:
            shard = sorted({t0 + "".join(c) for c in itertools.product(TOKENS, repeat=4)} - seen4)
            sc = ["D " + hx(l) for l in shard]
            si = run_impl(sc); sm = run_model(sc)
            extra_detect += len(sc)
            for k in diff_cases(sc, si, sm)[:3]: extra_bad.append((sc[k], si[k], sm[k]))
            del sc, si, sm, shard
    detected = [k for k, m in enumerate(model) if m != "D -"]
    # continuation pairs: distinct (ws, prefix, type) of detected directives with <= 3 tokens ...
    dirs = collections.OrderedDict()
    for k in detected:
        t = model[k].split(" ")
        key = (t[1], t[2], t[3])
        if key not in dirs: dirs[key] = t[4]
    dirlist = list(dirs.items())
    if tier_ == "quick" and len(dirlist) > 1500:
        keep = rng.shuffle(range(len(dirlist)))[:1500]
        dirlist = [dirlist[i] for i in sorted(keep)]
    acases = []
    for (ws, pre, ty), arg in dirlist:
        w = unhx(ws).decode(); p = unhx(pre).decode()
        pb = len(p.encode())
        ws_alts = [w, w + " ", w[:-1] if w else "\t", w.replace(" ", "\t", 1) if " " in w else w + " "]
        pre_alts = [p, " " * pb, " " * (pb + 1), " " * max(pb - 1, 0), p.rstrip(), p.rstrip() + "x", p[:-1] if p else "q",
                    " " * len(p), p.upper() if p.upper() != p else p + p]
        # remainders: plain, trimmed forms, non-ASCII, and every directive look-alike (a continuation is never re-read as a directive)
        rests = ["", "arg", " arg  ", "a\tb\t", "é　", "TXTPP#run x", "TXTPP#", "TXTPP# text", "TXTPP#  ", "TXTPP#write", "TXTPP#tag T", "-TXTPP#"]
        n = 0
        for wa in ws_alts:
            for pa in pre_alts:
                for r in rests:
                    # a deterministic thinning keeps the quick tier in budget while every (ws, prefix) form is still paired with every rest
                    n += 1
                    if tier_ == "quick" and wa != w and (n % 3) != 0: continue
                    acases.append("A %s %s %s %s %s" % (ws, pre, ty, arg, hx(wa + pa + r)))
    acases = list(collections.OrderedDict.fromkeys(acases))
    aimpl = run_impl(acases); amodel = run_model(acases)
    abad = diff_cases(acases, aimpl, amodel)
    # cross-check extraction against the kernel's evaluator on a sample
    nvm, vmbad = vm_crosscheck(dcases, model, rng, 60)
    # end-to-end sample through whole-file runs: a line is kept in the output iff it is not a directive / continuation
    e2e_projs = []
    sample = [lines[rng.below(len(lines))] for _ in range(150 if tier_ == "quick" else 600)]
    for j, l in enumerate(sample):
        # line endings may be mixed inside one file (the first line decides the OUTPUT ending only): recognition must not depend on
        # whether the line itself ends in LF or CRLF
        text = ["top\n" + l + "\nzz-end\n", "top\n" + l + "\r\nzz-end\r\n", "top\r\n" + l + "\nzz-end\n"][j % 3]
        p = Project("e%d" % j); p.files = [("/s.txt.txtpp", text.encode())]; p.inputs = ["s.txt"]
        p.pp = ("/s.txt.txtpp", False)
        e2e_projs.append(p)
    complete_oracles(e2e_projs)      # a sampled line may be a `run` directive: its command is evaluated once with sh
    e2e_cases = [p.text() for p in e2e_projs]
    eimpl = run_impl(e2e_cases); emodel = run_model(e2e_cases)
    def norm_e(o):
        d = parse_obs(o); return (d["verdict"], d["F"].get("/s.txt"))
    ebad = [k for k in range(len(e2e_cases)) if norm_e(eimpl[k]) != norm_e(emodel[k])]

    # continuation lines must stay continuation lines in EVERY pass: a file that has a dependency is first read in the
    # dependency-collecting mode; look-alike continuation lines must not be taken for directives there
    cprojs = []
    looks = ["TXTPP#include other.txt", "TXTPP#after other.txt", "   TXTPP#run x", "TXTPP#tag T", "TXTPP#", "-TXTPP#include other.txt", "plain", ""]
    for j, (ty, look) in enumerate(itertools.product(["write w0", "run printf '%s' a", "temp t.tmp", ""], looks)):
        for form in ("=", " "):
            p = Project("cd%d%s" % (j, "p" if form == "=" else "s"))
            main = "top\n-TXTPP#include dep.txt\n=TXTPP#%s\n%s%s\n%sz\n\nend\n" % (ty, form, look, form)
            if j % 2:
                # LF first line, CRLF afterwards: a bare prefix or an argument-less directive followed by CR LF is still what it is
                first, rest = main.split("\n", 1); main = first + "\n" + rest.replace("\n", "\r\n")
            p.files = [("/main.txt.txtpp", main.encode()), ("/dep.txt.txtpp", b"dep\n"), ("/other.txt.txtpp", b"other must not be built\n")]
            p.inputs = ["main.txt"]; p.sched = [0] * 8
            cprojs.append(p)
    # a directive line that directly follows another directive (it ENDS the block above and starts its own) is recognised in every mode:
    # in clean mode its effect is visible when it is a temp directive (the file must go)
    heads = ["-TXTPP#temp first.tmp\n-a", "-TXTPP#tag T", "-TXTPP#include plain.txt", "-TXTPP#write w\n-x", "-TXTPP#run printf y\n-z", "-TXTPP#\n-note", "-TXTPP#after plain.txt"]
    for j, head in enumerate(heads):
        for md in (2, 0):
            p = Project("chain%d_%d" % (j, md))
            main = "top\n%s\n=TXTPP#temp second.tmp\n=b\n+TXTPP#temp third.tmp\n+c\n\nT end\n" % head
            p.files = [("/chain.txt.txtpp", main.encode()), ("/plain.txt", b"plain\n"), ("/first.tmp", b"old"), ("/second.tmp", b"old"), ("/third.tmp", b"old"), ("/chain.txt", b"old")]
            p.inputs = ["chain.txt"]; p.mode = md; p.sched = [0] * 4
            cprojs.append(p)
    for j, (cont1, cont2) in enumerate([("  #", "    "), ("  # ", "  #"), ("    ", "    ")]):
        p = Project("emptyarg%d" % j)
        p.files = [("/e.txt.txtpp", ("top\n  # TXTPP#run printf \"[%%s]\\n\" \"a\n%s\n%s\n  # b\"\nend\n" % (cont1, cont2)).encode())]; p.inputs = ["e.txt"]; p.sched = [0] * 4
        cprojs.append(p)
    complete_oracles(cprojs)
    ccases = [p.text() for p in cprojs]
    cimpl = [parse_obs(x) for x in run_impl(ccases)]; cmodel = [parse_obs(x) for x in run_model(ccases)]
    cbad = [k for k in range(len(cprojs)) if (cimpl[k]["verdict"], cimpl[k]["F"], cimpl[k]["T"]) != (cmodel[k]["verdict"], cmodel[k]["F"], cmodel[k]["T"])]
    violations = []
    def mk(kind, case, i, m):
        return {"found": True, "replay": {"property": "C15", "kind": kind, "correspondence": "Grammar.%s vs Directive::%s" % (kind, kind),
                "theorem": "detect_from_iff / add_line_iff: the model's answer is the documented grammar's",
                "case": case, "case_readable": decode_case(case) if not case.startswith("R ") else None,
                "expected_by_documented_grammar(model)": m, "implementation": i}}
    for k in bad[:5]: violations.append(mk("detect_from", dcases[k], impl[k], model[k]))
    for (c_, i_, m_) in extra_bad[:5]: violations.append(mk("detect_from", c_, i_, m_))
    for k in abad[:5]: violations.append(mk("add_line", acases[k], aimpl[k], amodel[k]))
    for k in ebad[:5]: violations.append(mk("whole-file line kept vs consumed", e2e_cases[k], eimpl[k], emodel[k]))
    for k in cbad[:5]:
        violations.append(proj_violation("C15", "a continuation line was not treated as a continuation in one of the passes (file with a dependency: first pass collects dependencies)", cprojs[k], cimpl[k], cmodel[k]))
    cv, ncv = chain3_violations("C15", "a multi-line directive ended by a directive line, and the text after it, are processed the same in every pass")
    violations += cv
    for b in vmbad[:3]:
        violations.append({"found": False, "replay": {"property": "C15", "broken": "extracted evaluator disagrees with vm_compute", "detail": b}})
    kinds = collections.Counter(m.split(" ")[3] if m != "D -" else "-" for m in model)
    akinds = collections.Counter(m.split(" ")[1] for m in amodel)
    cov = {
        "evaluations": len(dcases) + extra_detect + len(acases) + len(e2e_cases),
        "distinct_nontrivial": len(set(model[k] for k in detected)) + len(set(a for a in amodel if a != "A stop")),
        "rule": "every concatenation of <= %d tokens from a %d-token alphabet (white space incl. U+00A0/U+3000, prefixes, TXTPP#, near-miss names) through detect_from; "
                "every distinct detected (whitespace, prefix, type) x whitespace/prefix/remainder variants through add_line; "
                "non-trivial = distinct observation that is a detected directive or an accepted continuation" % (bound, len(TOKENS)),
        "exhaustive": True,
        "exhaustive_bound": "lines of <= %d tokens" % bound,
        "samples": [decode_case(dcases[detected[len(detected) // 3]]), decode_case(acases[len(acases) // 2])] if detected and acases else [],
        "detect_cases": len(dcases) + extra_detect, "detect_distribution": dict(kinds),
        "addline_cases": len(acases), "addline_distribution": dict(akinds),
        "whole_file_cases": len(e2e_cases), "two_pass_continuation_cases": len(cprojs),
        "vm_compute_crosschecked": nvm,
        "disagreements": len(bad) + len(extra_bad) + len(abad) + len(ebad),
    }
    return {"coverage": cov, "violations": violations}

# ------------------------------------------------------------------ replay
def replay(path):
    """re-run the case of a replay file on the implementation and on the model and show both observations"""
    obj = json.load(open(path))
    case = obj.get("case") or (obj.get("project") or {}).get("case_text")
    if not case:
        print("replay: this file names a broken theorem / correspondence / build step; it carries no concrete case:")
        print(json.dumps({k: v for k, v in obj.items() if k in ("property", "broken", "theorem", "what", "detail")}, indent=1)[:3000])
        return 1
    env = dict(os.environ, VPH_TAG_REPEAT="8")
    i = run_impl([case], env=env)[0]; m = run_model([case])[0]
    print("property      :", obj.get("property"))
    print("what          :", obj.get("what") or obj.get("kind"))
    if case.startswith("R "):
        oi, om = parse_obs(i), parse_obs(m)
        print("implementation:", json.dumps(obs_summary(oi), indent=1))
        print("model (spec)  :", json.dumps(obs_summary(om), indent=1))
        same = (oi["verdict"], oi["F"], oi["U"]) == (om["verdict"], om["F"], om["U"])
    else:
        print("case          :", decode_case(case))
        print("implementation:", i)
        print("model (spec)  :", m)
        same = i == m
    print("implementation and model %s on this case" % ("AGREE" if same else "DISAGREE"))
    return 0 if same else 1

# ================================================================== whole-project checks
import gen

def trace_decode(o):
    out = []
    for t in trace_list(o):
        k, h = t.split(":")
        out.append(k + ":" + unhx(h).decode("utf-8", "replace"))
    return out

def xcheck(cov, violations, pid, projs, om, limit=3):
    """kernel cross-check of the extracted evaluator on a sample of this run's project cases"""
    n, bad = vm_crosscheck_projects(projs, om, limit)
    cov["vm_compute_crosschecked"] = cov.get("vm_compute_crosschecked", 0) + n
    for b in bad[:2]:
        violations.append({"found": False, "replay": {"property": pid, "broken": "extracted evaluator disagrees with vm_compute (extraction/driver tie)", "detail": b}})

def proj_violation(pid, what, p, oi, om, found=True, extra=None):
    r = {"property": pid, "what": what, "project": p.to_json(),
         "implementation": obs_summary(oi), "model(spec)": obs_summary(om) if om else None,
         "impl_trace": trace_decode(oi), "replay_hint": "./vp replay <this file> re-runs the case text on both sides"}
    if extra: r.update(extra)
    return {"found": found, "replay": r}

# ------------------------------------------------------------------ digraph x inputs x schedules (C02, C03, C05)
NAMES3 = ["/a.txt.txtpp", "/b.v1.txtpp.md", "/sub/c.txtpp"]      # a dotted stem in the second source-name form (get_txtpp_file candidates)
NAMES4 = NAMES3 + ["/sub/d.e.txt.txtpp"]

def rel_from(frm, to):
    fd = [x for x in frm.split("/")[1:-1]]; td = to.split("/")[1:]
    i = 0
    while i < len(fd) and i < len(td) - 1 and fd[i] == td[i]: i += 1
    return "/".join([".."] * (len(fd) - i) + td[i:])

def digraph_project(pid, names, edges, inputs, stale=True, after=False, fail=None, mode=0):
    """file i includes (or `after`s) the output of every j with (i, j) in edges; each file runs a counting
    command before and after its dependency block and snapshots each dependency when it reaches it"""
    p = Project(pid)
    for i, s in enumerate(names):
        tag = s.split("/")[-1].split(".")[0]
        L = ["%s-top" % tag]
        deps = [j for (a, j) in edges if a == i]
        # consecutive directive lines use different prefixes: a line that starts with the previous directive's
        # prefix would be swallowed as its continuation
        pre = itertools.cycle(["-", "=", "+", "~"])
        for j in deps:
            o = rel_from(s, gen.out_name(names[j]))
            L.append("%sTXTPP#%s %s" % (next(pre), "after" if after else "include", o))
            L.append("%sTXTPP#run cat %s > @M@/snap_%d_%d; true" % (next(pre), o, i, j))
        L.append("%sTXTPP#run printf x >> @M@/cnt_%d; printf 'ran-%s\\n'" % (next(pre), i, tag))
        if fail == i: L.append("%sTXTPP#run false" % next(pre))
        L.append("%s-bot" % tag)
        p.files.append((s, ("\n".join(L) + "\n").encode()))
        if stale: p.files.append((gen.out_name(s), b"STALE OUTPUT\n"))
    p.inputs = [(names[i] if k % 2 else gen.out_name(names[i])).lstrip("/") for k, i in enumerate(inputs)]
    p.mode = mode
    p.sched = []
    p.edges = list(edges); p.names = list(names); p.input_idx = list(inputs)
    return p

def canon_graphs(n, self_loops=True):
    """all digraphs on n labelled vertices up to relabelling TOGETHER with the input subset: we canonicalise (edges, inputs)"""
    verts = list(range(n))
    pairs = [(i, j) for i in verts for j in verts if self_loops or i != j]
    seen = set(); out = []
    for mask in range(1 << len(pairs)):
        edges = [pairs[k] for k in range(len(pairs)) if mask >> k & 1]
        for imask in range(1, 1 << n):
            inputs = [v for v in verts if imask >> v & 1]
            best = None
            for perm in itertools.permutations(verts):
                e2 = tuple(sorted((perm[a], perm[b]) for a, b in edges)); i2 = tuple(sorted(perm[v] for v in inputs))
                key = (e2, i2)
                if best is None or key < best: best = key
            if best in seen: continue
            seen.add(best); out.append((list(best[0]), list(best[1])))
    return out

def reachable_from(inputs, edges):
    r = set(inputs); ch = True
    while ch:
        ch = False
        for a, b in edges:
            if a in r and b not in r: r.add(b); ch = True
    return r

def can_reach_cycle(v, edges):
    """v can reach a vertex that lies on a cycle"""
    succ = collections.defaultdict(set)
    for a, b in edges: succ[a].add(b)
    def reach(x):
        r = set(); st = [x]
        while st:
            y = st.pop()
            for z in succ[y]:
                if z not in r: r.add(z); st.append(z)
        return r
    on_cycle = {x for x in set(a for a, _ in edges) | set(b for _, b in edges) if x in reach(x)}
    return v in on_cycle or bool(reach(v) & on_cycle)

def tree_dirs(p):
    """all directories of a project's tree (ancestors of its files, plus the declared ones, plus the root)"""
    ds = {"/"}
    for f in [x for (x, _) in p.files] + [d.rstrip("/") + "/." for d in getattr(p, "dirs", [])]:
        parts = f.split("/")[1:-1]
        for i in range(1, len(parts) + 1): ds.add("/" + "/".join(parts[:i]))
    return ds

SCHEDULE_SAFETY_CAP = 1500   # no project of the sweeps has more than a few hundred completion orders on a correct tree

def enumerate_schedules(projs, max_per=None):
    """all completion orders of each project: breadth-first over the controller's choice points, using the
    implementation's own report of how many tasks were pending at each choice. A per-project safety cap keeps a broken
    implementation (one that spawns more tasks than the model allows) from exploding the search: the runs made so far are
    compared with the model anyway and show the divergence."""
    done = []   # (project index, schedule, impl line)
    frontier = [(k, []) for k in range(len(projs))]
    counts = collections.Counter()
    cap = SCHEDULE_SAFETY_CAP if max_per is None else min(max_per, SCHEDULE_SAFETY_CAP)
    while frontier:
        batch = []
        for k, sched in frontier:
            q = projs[k].copy(); q.sched = list(sched); q.id = "%s.%d" % (projs[k].id, len(batch)); batch.append(q)
        outs = run_impl([q.text() for q in batch])
        nxt = []; queued = collections.Counter()
        for (k, sched), q, line in zip(frontier, batch, outs):
            o = parse_obs(line)
            ns = [int(x) for x in o["N"].split(",") if x]
            full = list(sched) + [0] * (len(ns) - len(sched))
            q.sched = full
            done.append((k, q, o)); counts[k] += 1
            # history_bound (props/C03): a run makes at most 2*|.txtpp files| + |directories| tasks. A run with more choice
            # points than that is already outside the model (the comparison below reports it): do not branch on it.
            nsrc = sum(1 for (f, _) in projs[k].files if ".txtpp" in f.rsplit("/", 1)[-1])
            if len(ns) > 2 * nsrc + len(tree_dirs(projs[k])) + 2:
                o["N"] = ",".join(str(x) for x in ns[:64]); o["T"] = o.get("T", "")[:4000]; o["raw"] = o["raw"][:4000]
                continue
            for i in range(len(sched), len(ns)):
                for c in range(1, ns[i]):
                    if counts[k] + queued[k] < cap:
                        nxt.append((k, full[:i] + [c])); queued[k] += 1
        frontier = nxt
    return done

def graph_sweep(tier_, sd, pid, after=False):
    rng = Rng(sd).fork("graphs")
    n = 3
    graphs = canon_graphs(n)
    names = NAMES3
    if tier_ == "quick":
        # every graph/input class on <= 3 files; schedules capped per case only as a safety net
        cap = 40
    else:
        cap = None
    projs = [digraph_project("g%d" % k, names, e, i, after=after) for k, (e, i) in enumerate(graphs)]
    complete_oracles(projs)
    runs = enumerate_schedules(projs, max_per=cap)
    # model on exactly the same schedules
    mouts = [parse_obs(x) for x in run_model([q.text() for (_, q, _) in runs])]
    return projs, runs, mouts

def dag_classes(n):
    """acyclic digraphs on n vertices (edges i->j only for i<j after relabelling) up to isomorphism, with input subsets"""
    verts = list(range(n)); pairs = [(i, j) for i in verts for j in verts if i < j]
    seen = set(); out = []
    for mask in range(1 << len(pairs)):
        edges = [pairs[k] for k in range(len(pairs)) if mask >> k & 1]
        for imask in range(1, 1 << n):
            inputs = [v for v in verts if imask >> v & 1]
            best = None
            for perm in itertools.permutations(verts):
                key = (tuple(sorted((perm[a], perm[b]) for a, b in edges)), tuple(sorted(perm[v] for v in inputs)))
                if best is None or key < best: best = key
            if best in seen: continue
            seen.add(best); out.append((list(best[0]), list(best[1])))
    return out

def seq_build(names, edges, after=False):
    """the one-file-at-a-time build in dependency order, as plain Python (independent of the model):
    expected output bytes of every file that cannot reach a cycle"""
    memo = {}
    def content(i):
        if i in memo: return memo[i]
        tag = names[i].split("/")[-1].split(".")[0]
        s = "%s-top\n" % tag
        for (a, j) in edges:
            if a == i and not after: s += content(j)
        s += "ran-%s\n%s-bot\n" % (tag, tag)
        memo[i] = s; return s
    out = {}
    for i in range(len(names)):
        if not can_reach_cycle(i, edges): out[i] = content(i).encode()
    return out

def sweep_cases(tier_, after=False):
    cases = [(NAMES3, e, i) for (e, i) in canon_graphs(3)]
    d4 = dag_classes(4)
    if tier_ == "quick":
        d4 = [(e, i) for (e, i) in d4 if len(i) <= 2 or len(i) == 4]
    cases += [(NAMES4, e, i) for (e, i) in d4]
    projs = [digraph_project("g%d" % k, nm, e, i, after=after) for k, (nm, e, i) in enumerate(cases)]
    # the same file requested twice, by source name and by output name (acyclic 3-file cases)
    extra = []
    for k, (nm, e, i) in enumerate(cases):
        if len(nm) == 3 and not any(can_reach_cycle(v, e) for v in range(3)):
            q = digraph_project("gd%d" % k, nm, e, i, after=after)
            q.inputs = q.inputs + [gen.out_name(nm[i[0]]).lstrip("/"), nm[i[0]].lstrip("/")]
            extra.append(q)
    return projs + extra

def random_large_graphs(rng, n, after=False):
    """random digraphs on 5-8 files (mostly acyclic) with random controlled schedules (sampled, not enumerated)"""
    out = []
    for k in range(n):
        r = rng.fork("G%d" % k)
        nf = 5 + r.below(4)
        names = [("/" if i % 3 else "/sub/") + "f%d" % i + [".txt.txtpp", ".txtpp.md", ".txtpp"][i % 3] for i in range(nf)]
        perm = r.shuffle(range(nf))
        edges = [(perm[i], perm[j]) for i in range(nf) for j in range(i + 1, nf) if r.chance(1, 4)]
        if r.chance(1, 6): edges.append((perm[nf - 1], perm[r.below(nf)]))     # sometimes a back edge: a cycle
        inputs = sorted(set(r.below(nf) for _ in range(1 + r.below(3))))
        for v in range(3):
            q = digraph_project("G%d.%d" % (k, v), names, edges, inputs, after=after)
            q.sched = [r.below(6) for _ in range(3 * nf + 4)]
            out.append(q)
    return out

def idle_variants(runs, every):
    """every `every`-th run of a sweep once more with idle polls: before each completion the coordinator polls an empty queue
    (a worker slower than the coordinator). Stuttering steps: the model's prediction for the schedule is unchanged."""
    sel = []
    for n, (k, q, o) in enumerate(runs):
        if n % every == 0 and len(o.get("N", "")) < 200:
            q2 = q.copy(); q2.idle = True; q2.id = q.id + ".idle"; sel.append((k, q2))
    outs = run_impl([q.text() for (_, q) in sel])
    return [(k, q, parse_obs(line)) for (k, q), line in zip(sel, outs)]

def run_sweep(tier_, after=False, cap=None):
    projs = sweep_cases(tier_, after)
    complete_oracles(projs)
    runs = enumerate_schedules(projs, max_per=cap)
    runs = runs + idle_variants(runs, 40 if tier_ == "quick" else 4)
    if tier_ != "quick":
        big = random_large_graphs(Rng(seed()).fork("big%s" % after), 1200, after)
        complete_oracles(big)
        bo = [parse_obs(x) for x in run_impl([q.text() for q in big])]
        runs = runs + [(-1, q, o) for q, o in zip(big, bo)]
    mouts = [parse_obs(x) for x in run_model([q.text() for (_, q, _) in runs])]
    return projs, runs, mouts

def sweep_common_cov(projs, runs, mouts, tier_):
    shapes = collections.Counter()
    for (k, q, oi) in runs:
        cyc = any(can_reach_cycle(v, q.edges) for v in reachable_from(q.input_idx, q.edges))
        shapes["%d files, %s" % (len(q.names), "cyclic" if cyc else "acyclic")] += 1
    traces = set((k, oi["T"]) for (k, q, oi) in runs)
    q = runs[len(runs) // 2][1]
    return {
        "evaluations": len(runs), "distinct_nontrivial": len(traces),
        "rule": "every digraph with self-loops on <= 3 files and every acyclic digraph on 4 files (%s), up to relabelling together with the set of requested inputs, "
                "x every completion order (breadth-first over the scheduling controller's choice points, no cap); stale outputs planted at every output path; "
                "non-trivial/distinct = distinct (graph class, task trace)" % ("input sets of size 1, 2 and 4 in the quick tier" if tier_ == "quick" else "all input sets"),
        "exhaustive": True, "exhaustive_bound": "<= 3 files with cycles, 4 files acyclic; larger graphs (thorough) are sampled",
        "graph_input_classes": len(projs), "schedules_run": len(runs), "shape_distribution": dict(shapes),
        "schedule_length_max": max(len(trace_list(oi)) for (_, _, oi) in runs),
        "traces_validated_against_impl": len(runs),
        "samples": [{"edges": q.edges, "inputs": q.input_idx, "schedule": q.sched, "trace": trace_decode(runs[len(runs) // 2][2]),
                     "verdict": runs[len(runs) // 2][2]["verdict"]}],
    }

def check_C02(tier_, sd, consts_ok, consts_detail):
    violations = []
    cov = None
    for after in (False, True):
        projs, runs, mouts = run_sweep(tier_, after=after)
        if cov is None: cov = sweep_common_cov(projs, runs, mouts, tier_)
        else:
            cov["evaluations"] += len(runs); cov["traces_validated_against_impl"] += len(runs)
            cov["after_variant_runs"] = len(runs)
        for (k, q, oi), om in zip(runs, mouts):
            if len(violations) >= 5: break
            exp = seq_build(q.names, q.edges, after)
            req = reachable_from(q.input_idx, q.edges)
            # (1) property predicate on the implementation: success => every required output equals the sequential build
            if oi["verdict"] == "ok":
                for i in req:
                    got = oi["F"].get(gen.out_name(q.names[i]))
                    if i in exp and got != exp[i]:
                        violations.append(proj_violation("C02", "output of %s differs from the one-file-at-a-time build (stale, partial or missing dependency observed)" % q.names[i],
                                                         q, oi, om, extra={"expected": short(exp[i]), "got": short(got)})); break
                # a command placed after include/after X saw the complete fresh X
                for name, snap in oi["M"].items():
                    if name.startswith("snap_"):
                        _, i, j = name.split("_"); j = int(j)
                        if j in exp and snap != exp[j]:
                            violations.append(proj_violation("C02", "command after the dependency directive for %s ran before that output was complete and fresh" % q.names[j],
                                                             q, oi, om, extra={"snapshot": short(snap), "expected": short(exp[j])})); break
            # (2) correspondence with the model on the same schedule: trace, verdict, bytes
            if (oi["verdict"], oi["T"], oi["F"]) != (om["verdict"], om["T"], om["F"]) and len(violations) < 5:
                fail_input = oi["verdict"] == "ok" and any(oi["F"].get(gen.out_name(q.names[i])) != exp.get(i) for i in req if i in exp)
                violations.append(proj_violation("C02", "coordinator trace / verdict / bytes differ from Run.txtpp_run on the same schedule (correspondence Coord.handle vs run_internal)",
                                                 q, oi, om, found=fail_input))
        xcheck(cov, violations, "C02", [q for (_, q, _) in runs[::97]], mouts[::97], limit=2)
    # freshness does not depend on the mode or on what lies at the outputs: --needed runs of every acyclic 3-file class on trees where
    # each output holds an OLDER, LONGER version (the fresh text plus a tail), a SHORTER one (a prefix) or nothing; includers must see the
    # fresh bytes of their dependencies, commands placed after the directive too
    nd = []
    for (e_, i_) in canon_graphs(3):
        if any(can_reach_cycle(v, e_) for v in range(3)): continue
        exp = seq_build(NAMES3, e_)
        for var in range(3):
            q = digraph_project("nd%d_%d" % (len(nd), var), NAMES3, e_, i_, stale=False, mode=1)
            plant = []
            for j in range(3):
                t = exp[j]
                old_ = [t + b"line of an older, longer version\n", t[: max(1, len(t) // 2)], None][(j + var) % 3]
                if old_ is not None: plant.append((gen.out_name(NAMES3[j]), old_))
            q.files = q.files + plant; q.sched = [(len(nd) * 5 + t) % 4 for t in range(12)]
            nd.append(q)
    complete_oracles(nd)
    ni_, nm_ = both(nd)
    for q, a, b in zip(nd, ni_, nm_):
        exp = seq_build(q.names, q.edges); req = reachable_from(q.input_idx, q.edges); bad = None
        if a["verdict"] == "ok":
            for i in req:
                if a["F"].get(gen.out_name(q.names[i])) != exp[i]: bad = ("output of %s" % q.names[i], a["F"].get(gen.out_name(q.names[i])), exp[i]); break
            for name, snap in a["M"].items():
                if bad is None and name.startswith("snap_") and snap != exp[int(name.split("_")[2])]: bad = ("what a command after the directive saw of %s" % q.names[int(name.split("_")[2])], snap, exp[int(name.split("_")[2])])
        if (a["verdict"] != "ok" or bad) and len(violations) < 5:
            violations.append(proj_violation("C02", "--needed on a tree with older outputs: verdict %s; %s is not the fresh text" % (a["verdict"], bad[0] if bad else "-"), q, a, b,
                                             extra={"got": short(bad[1]) if bad else None, "expected": short(bad[2]) if bad else None}))
        elif (a["verdict"], a["T"], a["F"]) != (b["verdict"], b["T"], b["F"]) and len(violations) < 5:
            violations.append(proj_violation("C02", "--needed run on a tree with older outputs differs from the model", q, a, b, found=False))
    cov["evaluations"] += len(nd); cov["needed_runs_on_older_outputs"] = len(nd)
    # the dependency directives are the LAST lines of the file (the very last line with and without a final newline): every one of them
    # must still be registered, also the last one, when the pass is already only collecting dependencies
    tl = []
    def tail_expected(edges_, i, memo):
        if i in memo: return memo[i]
        tag = NAMES3[i].split("/")[-1].split(".")[0]
        memo[i] = ("%s-top\nran-%s\n" % (tag, tag)).encode() + b"".join(tail_expected(edges_, j, memo) for (a_, j) in edges_ if a_ == i)
        return memo[i]
    for (e_, i_) in canon_graphs(3):
        if any(can_reach_cycle(v, e_) for v in range(3)) or not e_: continue
        for final_nl in (True, False):
            q = Project("tl%d" % len(tl)); q.names = NAMES3; q.edges = list(e_); q.input_idx = list(i_)
            for i, s_ in enumerate(NAMES3):
                tag = s_.split("/")[-1].split(".")[0]; pre = itertools.cycle(["-", "=", "+", "~"])
                L = ["%s-top" % tag, "%sTXTPP#run printf x >> @M@/cnt_%d; printf 'ran-%s\\n'" % (next(pre), i, tag), ""]
                L += ["%sTXTPP#include %s" % (next(pre), rel_from(s_, gen.out_name(NAMES3[j]))) for (a_, j) in e_ if a_ == i]
                if L[-1] == "": L = L[:-1]
                q.files.append((s_, ("\n".join(L) + ("\n" if final_nl else "")).encode())); q.files.append((gen.out_name(s_), b"STALE OUTPUT\n"))
            q.inputs = [(NAMES3[i] if k_ % 2 else gen.out_name(NAMES3[i])).lstrip("/") for k_, i in enumerate(i_)]
            q.sched = [(len(tl) * 3 + t) % 4 for t in range(12)]; q.trailing = final_nl or (len(tl) % 2 == 0)
            tl.append(q)
    complete_oracles(tl)
    ti_, tm_ = both(tl)
    for q, a, b in zip(tl, ti_, tm_):
        if a["verdict"] == "ok" and b["verdict"] == "ok" and a["F"] != b["F"] and len(violations) < 5:
            bad_ = sorted(k_ for k_ in set(a["F"]) | set(b["F"]) if a["F"].get(k_) != b["F"].get(k_))
            stale_ = any(b"STALE" in (a["F"].get(k_) or b"") for k_ in bad_)
            violations.append(proj_violation("C02", "dependency directives at the end of the file: %s differ from the one-file-at-a-time build%s" % (bad_, " (a STALE dependency output was included)" if stale_ else ""), q, a, b))
        elif (a["verdict"], a["T"]) != (b["verdict"], b["T"]) and len(violations) < 5:
            violations.append(proj_violation("C02", "dependency directives at the end of the file: verdict or task trace differ from the model (a dependency was not registered?)", q, a, b,
                                             found=(a["verdict"] != b["verdict"])))
    blk = []
    for k_, mid in enumerate(["// TXTPP#temp t%d.tmp\n//   body\n\n", "// TXTPP#write w\n// x\nplain line\n", "// TXTPP#run printf 'r\\n'\n//   \n\n", "// TXTPP#\n// note\ntext\n"]):
        for inp in (["a.txt"], ["."]):
            q = Project("blk%d%s" % (k_, "d" if inp == ["."] else "a"))
            q.files = [("/a.txt.txtpp", ("a top\n// TXTPP#include b.txt\n" + (mid % k_ if "%d" in mid else mid) + "// TXTPP#include x.txt\na end\n").encode()), ("/b.txt.txtpp", b"b text\n"),
                       ("/x.txt.txtpp", b"x line 1\nx line 2\n"), ("/x.txt", b"OLD STALE X\n"), ("/a.txt", b"STALE\n")]
            q.inputs = inp; q.sched = [(k_ + t) % 3 for t in range(10)]; blk.append(q)
    bi2, bm2 = both(blk)
    for q, a, b in zip(blk, bi2, bm2):
        if a["verdict"] == "ok" and b"OLD STALE X" in (a["F"].get("/a.txt") or b"") and len(violations) < 5:
            violations.append(proj_violation("C02", "a dependency directive that follows a multi-line block and an ordinary line was not registered: the STALE output of the dependency was included", q, a, b))
        elif (a["verdict"], a["F"], sorted(trace_list(a))) != (b["verdict"], b["F"], sorted(trace_list(b))) and len(violations) < 5:
            violations.append(proj_violation("C02", "dependency directive after a multi-line block: verdict/bytes/processed set differ from the model", q, a, b, found=(a["verdict"] == "ok" and a["F"].get("/a.txt") != b["F"].get("/a.txt"))))
    cov["evaluations"] += len(tl) + len(blk); cov["dependency_directives_last_cases"] = len(tl); cov["dependency_after_block_cases"] = len(blk)
    return {"coverage": cov, "violations": violations}

def check_C03(tier_, sd, consts_ok, consts_detail):
    projs, runs, mouts = run_sweep(tier_)
    cov = sweep_common_cov(projs, runs, mouts, tier_)
    violations = []
    for (k, q, oi), om in zip(runs, mouts):
        if len(violations) >= 5: break
        req = reachable_from(q.input_idx, q.edges)
        if oi["verdict"] in ("hang", "panic"):
            violations.append(proj_violation("C03", "run did not terminate normally: " + oi["verdict"], q, oi, om)); continue
        tr = trace_decode(oi)
        finals = collections.Counter()
        # a file is completed by its second pass, or by its first pass when it has no dependency
        for t in tr:
            kind, path = t.split(":", 1)
            i = q.names.index(path) if path in q.names else None
            if i is None: continue
            has_deps = any(a == i for a, _ in q.edges)
            if kind == "p2" or (kind == "p1" and not has_deps): finals[i] += 1
        for i in range(len(q.names)):
            cnt = len(oi["M"].get("cnt_%d" % i, b""))
            if cnt > 1 or finals[i] > 1:
                violations.append(proj_violation("C03", "file %s completed %d times / its command ran %d times" % (q.names[i], finals[i], cnt), q, oi, om)); break
            if oi["verdict"] == "ok" and i in req and (cnt != 1 or gen.out_name(q.names[i]) not in oi["F"]):
                violations.append(proj_violation("C03", "success reported but %s was not completed exactly once (count %d)" % (q.names[i], cnt), q, oi, om)); break
        if (oi["verdict"], oi["T"]) != (om["verdict"], om["T"]) or oi["M"].keys() != {**oi["M"], **{k_: v for k_, v in model_marks(om).items()}}.keys():
            if len(violations) < 5:
                violations.append(proj_violation("C03", "task trace / verdict differ from Run.txtpp_run on the same schedule", q, oi, om, found=False))
    # duplicate and aliased inputs, directories scanned together with files
    rng = Rng(sd).fork("C03dup")
    dprojs = []
    for k in range(60 if tier_ == "quick" else 400):
        edges = [(0, 1), (0, 2), (1, 2)] if k % 2 else [(0, 1)]
        q = digraph_project("dup%d" % k, NAMES3, edges, [0])
        alias = ["a.txt", "a.txt.txtpp", "./a.txt", "sub/../a.txt", ".", "sub", "b.v1.md", "b.v1.txtpp.md", "sub/c", "./sub/./c.txtpp"]
        q.inputs = [rng.choice(alias) for _ in range(2 + rng.below(5))]
        q.recursive = rng.chance(1, 2)
        q.sched = [rng.below(5) for _ in range(16)]
        dprojs.append(q)
    di, dm = both(dprojs)
    for q, oi, om in zip(dprojs, di, dm):
        bad = [n for n, v in oi["M"].items() if n.startswith("cnt_") and len(v) != 1]
        if oi["verdict"] != "ok" or bad:
            if len(violations) < 5:
                violations.append(proj_violation("C03", "aliased/duplicate inputs: verdict %s, commands run more than once: %s" % (oi["verdict"], bad), q, oi, om))
        elif (oi["verdict"], oi["F"], oi["T"]) != (om["verdict"], om["F"], om["T"]) and len(violations) < 5:
            violations.append(proj_violation("C03", "aliased inputs: trace/bytes differ from the model", q, oi, om, found=False))
    # termination and exactly-once do not depend on what the lines look like: multi-line directives with NON-ASCII prefixes whose
    # next line is indented by the prefix's character count / byte count in spaces, is blank, or starts with a multi-byte character
    odd = []
    for k_, (pre, cont) in enumerate([("» ", "  «end»"), ("» ", "   «end»"), ("» ", "  "), ("é", " ü"), ("é", "  ü"), ("日本 ", "   x"), ("日本 ", "       x"), ("// ", "   x")]):
        for md in (0, 3) if k_ < 3 else (0,):
            q = Project("odd%d_%d" % (k_, md))
            part = "%sTXTPP#run printf x >> @M@/cnt_part; printf 'ok\\n'\n%s\nafter\n" % (pre, cont)
            main = "top\n-TXTPP#include part.md\n=TXTPP#run printf x >> @M@/cnt_main; printf 'm\\n'\nend\n"
            q.files = [("/part.md.txtpp", part.encode()), ("/main.md.txtpp", main.encode())]
            q.inputs = ["main.md.txtpp", ".", "main.md"]; q.mode = md; q.sched = [(k_ + t) % 3 for t in range(10)]; q.threads = 2
            odd.append(q)
    complete_oracles(odd)
    oi_, om_ = both(odd)
    for q, a, b in zip(odd, oi_, om_):
        bad = [n_ for n_, v_ in a["M"].items() if n_.startswith("cnt_") and len(v_) != 1]
        if a["verdict"] in ("hang", "panic") or (q.mode == 0 and a["verdict"] == "ok" and bad):
            if len(violations) < 5: violations.append(proj_violation("C03", "non-ASCII directive prefix: the run ended with `%s`, commands not run exactly once: %s" % (a["verdict"], bad), q, a, b))
        elif (a["verdict"], a["F"] if a["verdict"] == "ok" else None) != (b["verdict"], b["F"] if b["verdict"] == "ok" else None) and len(violations) < 5:
            violations.append(proj_violation("C03", "non-ASCII directive prefix: verdict/bytes differ from the model", q, a, b, found=False))
    dirs_ = []
    for k_, dn in enumerate(["chapters.txtpp", "parts.txtpp.d", "x.md.txtpp"]):
        q = Project("srcdir%d" % k_); q.dirs = ["/proj/" + dn + "/deep", "/proj/plain"]
        q.files = [("/proj/top.txt.txtpp", b"-TXTPP#run printf x >> @M@/cnt_top; printf 't\\n'\n\n"), ("/proj/%s/one.txt.txtpp" % dn, b"-TXTPP#run printf x >> @M@/cnt_one; printf 'o\\n'\n\n"),
                   ("/proj/%s/deep/two.txtpp" % dn, b"-TXTPP#run printf x >> @M@/cnt_two; printf 'w\\n'\n\n"), ("/proj/plain/three.txtpp.md", b"-TXTPP#run printf x >> @M@/cnt_three; printf 'h\\n'\n\n")]
        q.inputs = ["proj"]; q.recursive = True; q.sched = [(k_ + t) % 4 for t in range(16)]; dirs_.append(q)
    complete_oracles(dirs_)
    si_, sm_ = both(dirs_)
    for q, a, b in zip(dirs_, si_, sm_):
        cnt = {n_: len(v_) for n_, v_ in a["M"].items() if n_.startswith("cnt_")}
        if (a["verdict"] != "ok" or cnt != {"cnt_top": 1, "cnt_one": 1, "cnt_two": 1, "cnt_three": 1}) and len(violations) < 5:
            violations.append(proj_violation("C03", "recursive run over a directory NAMED like a source: verdict %s, command counts %s (every source below it must be completed exactly once)" % (a["verdict"], cnt), q, a, b))
        elif (a["verdict"], a["F"]) != (b["verdict"], b["F"]) and len(violations) < 5:
            violations.append(proj_violation("C03", "directory named like a source: differs from the model", q, a, b, found=False))
    # "if it reports success ... its output exists": sources whose output is EMPTY (only temp / after / empty directives, an empty file),
    # on a tree without outputs and on a cleaned tree, in build and --needed mode
    empt = []
    for md in (0, 1):
        for var in range(3):
            q = Project("empty%d_%d" % (md, var)); q.mode = md
            q.files = [("/gen.txtpp", b"-TXTPP#temp data.txt\n-row 1\n-row 2\n"), ("/blank.txtpp", b""), ("/order.txtpp", b"TXTPP#after gen\n"),
                       ("/main.txt.txtpp", b"top\n-TXTPP#after gen\n=TXTPP#include data.txt\nend\n")]
            if var == 1: q.files += [("/gen", b""), ("/blank", b"")]            # already there and already right
            if var == 2: q.files += [("/gen", b"old\n"), ("/order", b"x")]      # stale
            q.inputs = ["."]; q.recursive = True; q.sched = [(var + t) % 3 for t in range(12)]
            empt.append(q)
    ei_, em_ = both(empt, oracle=False)
    for q, a, b in zip(empt, ei_, em_):
        missing = [o_ for o_ in ("/gen", "/blank", "/order", "/main.txt") if a["F"].get(o_) is None]
        if a["verdict"] == "ok" and missing and len(violations) < 5:
            violations.append(proj_violation("C03", "the run reported success but the outputs %s do not exist (mode %s)" % (missing, "--needed" if q.mode else "build"), q, a, b))
        elif (a["verdict"], a["F"]) != (b["verdict"], b["F"]) and len(violations) < 5:
            violations.append(proj_violation("C03", "empty-output sources: verdict/bytes differ from the model", q, a, b, found=False))
    # termination of the real process when a failure arrives while many other tasks are still queued or running (their results are
    # never received by the coordinator: nobody may wait for them to be taken)
    many = {"bad.txt.txtpp": "TXTPP#include no_such_file.txt\n"}
    many.update({"s%02d.txt.txtpp" % i_: "-TXTPP#run sleep 0.1; printf 'x\\n'\n\ntext %d\n" % i_ for i_ in range(10)})
    many.update({"q%03d.txtpp" % i_: "q %d\n" % i_ for i_ in range(90)})
    names_ = ["bad.txt.txtpp"] + sorted(k_ for k_ in many if k_ != "bad.txt.txtpp")
    ts = cli_session(many, [["-q", "-j", "1"] + names_, ["-q", "-j", "2"] + names_[:12], ["-q", "-j", "4", "."], ["-q", "-j", "3"] + names_[1:]])
    term_ok = [ts[0][0] == 1, ts[1][0] == 1, ts[2][0] == 1, ts[3][0] == 0 and all((n_[:-6] in ts[3][1]) for n_ in names_[1:])]
    if not all(term_ok) and len(violations) < 6:
        violations.append({"found": True, "replay": {"property": "C03", "what": "the run did not end (or ended with the wrong status) when one file fails while many other tasks are queued or running",
                           "steps": "txtpp -j 1 bad + 100 good files (bad first); -j 2 bad + 11; -j 4 . ; -j 3 the 100 good files (must succeed, 100 outputs)", "exits": [x[0] for x in ts], "steps_ok": term_ok}})
    cov["cli_termination_steps_ok"] = term_ok
    cov["evaluations"] += len(dprojs) + len(odd) + len(empt); cov["aliased_input_cases"] = len(dprojs); cov["non_ascii_prefix_cases"] = len(odd); cov["empty_output_cases"] = len(empt)
    xcheck(cov, violations, "C03", dprojs, dm)
    return {"coverage": cov, "violations": violations}

check_C03.needs_cli = True

def check_C05(tier_, sd, consts_ok, consts_detail):
    projs, runs, mouts = run_sweep(tier_)
    cov = sweep_common_cov(projs, runs, mouts, tier_)
    violations = []
    ncyc = 0
    for (k, q, oi), om in zip(runs, mouts):
        if len(violations) >= 5: break
        req = reachable_from(q.input_idx, q.edges)
        cyc = any(can_reach_cycle(v, q.edges) for v in req)
        ncyc += cyc
        exp = seq_build(q.names, q.edges)
        if oi["verdict"] in ("hang", "panic"):
            violations.append(proj_violation("C05", "run ended with " + oi["verdict"], q, oi, om)); continue
        if cyc and oi["verdict"] != "err":
            violations.append(proj_violation("C05", "a required file can reach a dependency cycle but the run reported success", q, oi, om)); continue
        if not cyc and oi["verdict"] != "ok":
            violations.append(proj_violation("C05", "project without cycles failed (false circular-dependency error?)", q, oi, om)); continue
        for i in req:
            if i in exp and oi["F"].get(gen.out_name(q.names[i])) != exp[i]:
                violations.append(proj_violation("C05", "required file %s cannot reach a cycle but was not built correctly" % q.names[i], q, oi, om,
                                                 extra={"expected": short(exp[i])})); break
        if (oi["verdict"], oi["T"], oi["F"]) != (om["verdict"], om["T"], om["F"]) and len(violations) < 5:
            violations.append(proj_violation("C05", "trace / verdict / bytes differ from Run.txtpp_run on the same schedule", q, oi, om, found=False))
    cov["runs_with_reachable_cycle"] = ncyc
    # cycles are reported in EVERY mode that orders files (verify and --needed too), also when every output already holds exactly
    # what a file-by-file expansion gives: `after` edges (no text is included), each output planted with the file's own text
    vm = []
    for (e_, i_) in canon_graphs(3):
        for md in (3, 1):
            q = digraph_project("vm%d_%d" % (len(vm), md), NAMES3, e_, i_, stale=False, after=True, mode=md)
            own = seq_build(NAMES3, [], after=True)
            q.files = q.files + [(gen.out_name(NAMES3[j]), own[j]) for j in range(3)]
            q.sched = [(len(vm) * 7 + t) % 5 for t in range(12)]
            vm.append(q)
    complete_oracles(vm)
    vi, vmo = both(vm)
    nvm = 0
    for q, a, b in zip(vm, vi, vmo):
        req = reachable_from(q.input_idx, q.edges); cyc = any(can_reach_cycle(v, q.edges) for v in req); nvm += cyc
        if cyc and a["verdict"] == "ok" and len(violations) < 5:
            violations.append(proj_violation("C05", "mode %s: a required file can reach a dependency cycle but the run reported success" % ("verify" if q.mode == 3 else "--needed"), q, a, b))
        elif not cyc and a["verdict"] != "ok" and b["verdict"] == "ok" and len(violations) < 5:
            violations.append(proj_violation("C05", "mode %s: project without cycles failed" % ("verify" if q.mode == 3 else "--needed"), q, a, b))
        elif (a["verdict"], a["F"]) != (b["verdict"], b["F"]) and len(violations) < 5:
            violations.append(proj_violation("C05", "verify/--needed run on a planted tree differs from the model", q, a, b, found=False))
    cov["verify_and_needed_mode_runs"] = len(vm); cov["verify_and_needed_mode_runs_with_cycle"] = nvm
    # an output with TWO sources (NAME.EXT.txtpp and NAME.txtpp.EXT) and a third file that includes it, every input order and
    # completion order: no cycle exists, so no circular-dependency failure may be reported and the includer is built
    two = []
    for k_, inp in enumerate([["greeting.txt.txtpp", "greeting.txtpp.txt", "page.md.txtpp"], ["greeting.txtpp.txt", "greeting.txt.txtpp", "page.md"], ["page.md", "greeting.txtpp.txt"],
                              ["greeting.txtpp.txt", "page.md.txtpp"], ["."], ["page.md.txtpp"]]):
        for sc in range(4):
            q = Project("two%d_%d" % (k_, sc))
            q.files = [("/greeting.txt.txtpp", b"hello from ext.txtpp\n"), ("/greeting.txtpp.txt", b"hello from txtpp.ext\n"), ("/page.md.txtpp", b"top\n-TXTPP#include greeting.txt\nend\n")]
            q.inputs = inp; q.sched = [(sc * 3 + t * (sc + 1)) % 4 for t in range(12)]
            two.append(q)
    wi_, wm_ = both(two, oracle=False)
    for q, a, b in zip(two, wi_, wm_):
        if a["verdict"] != "ok" and b["verdict"] == "ok" and len(violations) < 5:
            violations.append(proj_violation("C05", "a project without cycles (two sources of one output, one includer) failed", q, a, b))
        elif (a["verdict"], sorted(trace_list(a))) != (b["verdict"], sorted(trace_list(b))) and len(violations) < 5:
            violations.append(proj_violation("C05", "two sources of one output: verdict or processed set differ from the model", q, a, b, found=False))
    selfinc = []
    for k_, (srcn, outn) in enumerate([("page.md.txtpp", "page.md"), ("page.txtpp.md", "page.md"), ("page.txtpp.md.txtpp", "page.txtpp.md"), ("page.txtpp.txtpp.md", "page.txtpp.md"), ("p.v2.txtpp.md", "p.v2.md")]):
        for md in (0, 1):
            q = Project("selfinc%d_%d" % (k_, md)); q.mode = md
            q.files = [("/" + srcn, ("top\n-TXTPP#include %s\nend\n" % outn).encode()), ("/" + outn, b"old content of the output\n"), ("/other.txt.txtpp", b"other\n")]
            q.inputs = ["."]; q.sched = [k_ % 2, 0, 0, 0]; selfinc.append(q)
    fi2, fm2 = both(selfinc, oracle=False)
    for q, a, b in zip(selfinc, fi2, fm2):
        if a["verdict"] == "ok" and len(violations) < 5:
            violations.append(proj_violation("C05", "a file that includes its own output was built and reported as success", q, a, b))
        elif a["verdict"] != b["verdict"] and len(violations) < 5:
            violations.append(proj_violation("C05", "self-including file: verdict differs from the model", q, a, b, found=False))
    cov["two_sources_one_output_runs"] = len(two); cov["self_include_runs"] = len(selfinc)
    # "a project without cycles never gets a circular-dependency failure": acyclic classes in which one file FAILS (a command exits
    # non-zero) while others are waiting for their dependencies - the run fails, but not with the circular-dependency report;
    # cyclic classes without any failing file - the failure IS the circular-dependency report
    kind = []
    for n_, (e_, i_) in enumerate(canon_graphs(3)):
        cyc_ = any(can_reach_cycle(v, e_) for v in reachable_from(i_, e_))
        for fl in ([None] if cyc_ else [0, 1, 2]):
            if fl is not None and fl not in reachable_from(i_, e_): continue
            q = digraph_project("kind%d_%s" % (n_, fl), NAMES3, e_, i_, fail=fl)
            q.sched = [(n_ * 7 + t * 3 + (fl or 0)) % 5 for t in range(14)]; q.idle = (n_ % 3 == 0); q.expect_cyc = cyc_
            kind.append(q)
    complete_oracles(kind)
    ki_, km_ = both(kind)
    nk = collections.Counter()
    for q, a, b in zip(kind, ki_, km_):
        nk[(q.expect_cyc, a["verdict"], a["K"])] += 1
        if not q.expect_cyc and a["K"] == "cyc" and len(violations) < 5:
            violations.append(proj_violation("C05", "a project WITHOUT cycles (one file fails, others wait for their dependencies) was reported as a circular dependency", q, a, b))
        elif q.expect_cyc and a["verdict"] == "err" and a["K"] != "cyc" and b["verdict"] == "err" and len(violations) < 5:
            violations.append(proj_violation("C05", "a reachable cycle made the run fail, but not with the circular-dependency report", q, a, b, found=False))
        elif a["verdict"] != b["verdict"] and len(violations) < 5:
            violations.append(proj_violation("C05", "verdict differs from the model (failing file in an acyclic project / cyclic project)", q, a, b, found=False))
    cov["failure_kind_runs"] = {"%s/%s/%s" % k_: v_ for k_, v_ in sorted(nk.items(), key=str)}
    xcheck(cov, violations, "C05", [q for (_, q, _) in runs[::131]], mouts[::131], limit=2)
    return {"coverage": cov, "violations": violations}

# ------------------------------------------------------------------ generated projects: C01, C12, C13, C16
def gen_batch(rng, n, large=True, **kw):
    """generated projects; one in twenty-five is a LARGE project (outputs of 9-30 KiB: the 8 KiB buffers of BufReader / BufWriter matter)"""
    out = []
    for i in range(n):
        if large and i % 25 == 5:
            out.append(gen.gen_large_project(rng.fork("L%d" % i), "p%d" % i, modes=kw.get("modes", (0,))))
        else:
            out.append(gen.gen_project(rng.fork("p%d" % i), "p%d" % i, **kw))
    return out

def generated_paths(p, o):
    """paths of the final tree that are not part of the initial tree (outputs and temp files)"""
    init = {f for f, _ in p.files}
    return sorted(k for k, v in o["F"].items() if v is not None and k not in init)

def dist_of(projs):
    st = collections.Counter()
    for p in projs: st.update(getattr(p, "stats", {}))
    return dict(st)

def check_C01(tier_, sd, consts_ok, consts_detail):
    rng = Rng(sd).fork("C01")
    n = 700 if tier_ == "quick" else 30000
    projs = gen_batch(rng, n, modes=(0,))
    oi, om = both(projs)
    violations = []; verd = collections.Counter(); nontriv = set()
    for p, a, b in zip(projs, oi, om):
        verd[(a["verdict"], b["verdict"])] += 1
        gp = generated_paths(p, a)
        if gp: nontriv.add(tuple((k, a["F"][k]) for k in gp))
        same = a["verdict"] == b["verdict"] and (a["verdict"] != "ok" or a["F"] == b["F"])
        if not same and len(violations) < 5:
            violations.append(proj_violation("C01", "verdict or generated bytes differ from the README semantics (Spec.spec_file = Pp.pp_run, theorem machine_refines_spec)", p, a, b))
    # directives take effect in source order: a file that is included, rewritten by a later temp directive and included AGAIN (under the
    # same or another spelling of its path), with a generated dependency in front or not; every include sees the bytes of that moment
    order = []
    for k_ in range(40 if tier_ == "quick" else 600):
        r = rng.fork("ord%d" % k_); q = Project("ord%d" % k_)
        d = r.choice(["/", "/sub/"]); q.dirs = ["/sub", "/sub/x"]
        sp = lambda: r.choice(["t.tmp", "./t.tmp", "x/../t.tmp" if d == "/sub/" else "sub/../t.tmp"])
        v1 = r.choice(["first version", "one\n-two"]); v2 = r.choice(["second version", "2a\n=2b\n=2c", ""])
        L = (["/TXTPP#include dep.txt"] if k_ % 3 == 0 else []) + ["top", "-TXTPP#temp t.tmp", "-" + v1, "", "  +TXTPP#include " + sp(), "mid", "=TXTPP#temp " + sp(), "=" + v2, "",
             "~TXTPP#include " + sp(), "-TXTPP#tag HERE", "=TXTPP#include " + sp(), "x HERE y", "end"]
        q.files = [(d + "s.txt.txtpp", ("\n".join(L) + "\n").encode())] + ([(d + "dep.txt.txtpp", b"generated dependency\n")] if k_ % 3 == 0 else [])
        q.inputs = [(d + "s.txt").lstrip("/")]; q.sched = [r.below(3) for _ in range(8)]
        q.v2 = v2.replace("=", ""); order.append(q)
    ri, rm = both(order, oracle=False)
    for q, a, b in zip(order, ri, rm):
        out = [v_ for k_, v_ in a["F"].items() if k_.endswith("s.txt")]
        second = q.v2.split("\n")[0].encode()
        if a["verdict"] == "ok" and b["verdict"] == "ok" and (not out or out[0] != [v_ for k_, v_ in b["F"].items() if k_.endswith("s.txt")][0]) and len(violations) < 5:
            violations.append(proj_violation("C01", "a file included again after a later directive rewrote it: the output does not show the bytes of that moment (README: directives are executed in order)", q, a, b,
                                             extra={"second_version_expected_after_mid": short(second)}))
        elif (a["verdict"], a["F"] if a["verdict"] == "ok" else None) != (b["verdict"], b["F"] if b["verdict"] == "ok" else None) and len(violations) < 5:
            violations.append(proj_violation("C01", "verdict or generated bytes differ from the README semantics (re-included file)", q, a, b))
    killed = []
    for k_, cmd in enumerate(["printf 'partial\\n'; kill -9 $$; printf 'rest\\n'", "printf 'partial\\n'; kill -TERM $$", "kill -SEGV $$", "printf ok; exit 3", "printf 'fine\\n'"]):
        q = Project("killed%d" % k_); q.files = [("/s.txt.txtpp", ("head\n// TXTPP#run %s\n//\ntail\n" % cmd).encode())]; q.inputs = ["s.txt"]; q.sched = [0] * 4
        killed.append(q)
    gi2, gm2 = both(killed)
    for k_, (q, a, b) in enumerate(zip(killed, gi2, gm2)):
        if (a["verdict"] == "ok") != (k_ == 4) and len(violations) < 5:
            violations.append(proj_violation("C01", "the build fails if and only if a command fails: a command that %s gave verdict %s" % ("is killed by a signal / exits non-zero" if k_ < 4 else "succeeds", a["verdict"]), q, a, b))
    # the repository's own golden fixtures as a sanity check of the specification
    fx = fixture_projects()
    fi, fm = both(fx)
    nfx = 0
    for p, a, b in zip(fx, fi, fm):
        for path, exp in p.expected.items():
            if b["verdict"] != "ok" or a["verdict"] != "ok": continue
            nfx += 1
            if b["F"].get(path) != exp and len(violations) < 5:
                violations.append(proj_violation("C01", "the specification disagrees with the repository's golden file for %s" % path, p, a, b, found=False,
                                                 extra={"golden": short(exp), "spec": short(b["F"].get(path))}))
            if a["F"].get(path) != exp and len(violations) < 5:
                violations.append(proj_violation("C01", "the implementation disagrees with the repository's golden file for %s" % path, p, a, b,
                                                 extra={"golden": short(exp), "got": short(a["F"].get(path))}))
    cov = {"evaluations": n + len(fx) + len(order), "distinct_nontrivial": len(nontriv), "reinclude_after_rewrite_cases": len(order),
           "rule": "grammar-directed random projects inside the documented domain (1-5 sources over <= 3 directories, include/after edges, plain includes, temp targets, pure commands, tags, "
                   "LF/CRLF/mixed endings, erroneous directives at low rate), Build mode, random controlled schedule; distinct_nontrivial = distinct sets of generated files (path, bytes)",
           "verdicts(impl,model)": {"%s/%s" % k: v for k, v in verd.items()}, "input_distribution": dist_of(projs),
           "golden_fixture_files_checked": nfx,
           "samples": [projs[0].to_json()["files"]]}
    xcheck(cov, violations, "C01", projs, om)
    return {"coverage": cov, "violations": violations}

def fixture_projects():
    """tests/examples/* of the repository whose commands are pure: (project, {output path: golden bytes})"""
    out = []
    root = os.path.join(REPO, "tests", "examples")
    for d in ["include", "write", "tag", "after", "empty_test"]:
        top = os.path.join(root, d)
        if not os.path.isdir(top): continue
        subs = [top] + [os.path.join(top, x) for x in sorted(os.listdir(top)) if os.path.isdir(os.path.join(top, x))]
        for sdir in subs:
            files = [f for f in sorted(os.listdir(sdir)) if os.path.isfile(os.path.join(sdir, f))]
            if not any(".txtpp" in f for f in files): continue
            p = Project("fx-" + os.path.relpath(sdir, root).replace("/", "-"))
            p.expected = {}
            ok = True
            for f in files:
                data = open(os.path.join(sdir, f), "rb").read()
                if f.endswith(".expected"):
                    p.expected["/" + f[:-9]] = data
                else:
                    p.files.append(("/" + f, data))
                    if b"TXTPP#run" in data and (b"python" in data or b"cat " in data or b"$" in data or b"echo -n" in data or b"./" in data): ok = False
            if not ok or not p.expected: continue
            p.inputs = ["."]; p.sched = [0] * 40
            out.append(p)
    return out

def check_C13(tier_, sd, consts_ok, consts_detail):
    rng = Rng(sd).fork("C13")
    n = 600 if tier_ == "quick" else 20000
    # per source, fixed environment: no include of another generated output (whose own final line ending the option changes)
    base = gen_batch(rng, n, modes=(0,), allow_errors=False, edges="none")
    on, off = [], []
    for p in base:
        a = p.copy(); a.trailing = True; a.id = p.id + "+"; on.append(a)
        b = p.copy(); b.trailing = False; b.id = p.id + "-"; off.append(b)
    oi, om = both(on + off)
    violations = []; rel = collections.Counter(); nontriv = set()
    for k, p in enumerate(base):
        ion, ioff = oi[k], oi[n + k]; mon, moff = om[k], om[n + k]
        init = {f for f, _ in p.files}
        srcs = {gen.out_name(s) for s in p.srcs}
        if ion["verdict"] != ioff["verdict"]:
            if len(violations) < 5: violations.append(proj_violation("C13", "the option changed the verdict", on[k], ion, mon, extra={"off": obs_summary(ioff)}))
            continue
        for path in sorted(set(ion["F"]) | set(ioff["F"])):
            if path in init: continue
            x, y = ion["F"].get(path), ioff["F"].get(path)
            if path in srcs:
                # outputs: identical except for at most one final line ending
                le = b"\r\n" if dict(p.files)[[s for s in p.srcs if gen.out_name(s) == path][0]].split(b"\n")[0].endswith(b"\r") and b"\n" in dict(p.files)[[s for s in p.srcs if gen.out_name(s) == path][0]] else b"\n"
                if x is None or y is None or not (x == y or x == y + le):
                    if len(violations) < 5:
                        violations.append(proj_violation("C13", "outputs with the option on/off differ by more than one final line ending: %s" % path, on[k], ion, mon,
                                                         extra={"on": short(x), "off": short(y)}))
                else:
                    rel["same" if x == y else "plus-le"] += 1; nontriv.add((x, y))
                    # a source that ends with an ordinary text line: on ends with that line + le, off with the line
            else:
                if x != y and len(violations) < 5:
                    violations.append(proj_violation("C13", "the option changed a temp file: %s" % path, on[k], ion, mon, extra={"on": short(x), "off": short(y)}))
        if (ion["verdict"], ion["F"]) != (mon["verdict"], mon["F"]) or (ioff["verdict"], ioff["F"]) != (moff["verdict"], moff["F"]):
            if len(violations) < 5: violations.append(proj_violation("C13", "bytes differ from the model under one of the two settings", on[k], ion, mon, found=False))
    # the option reaches every file of the run, however the file was discovered: projects WITH dependencies, only one root
    # requested (the dependencies are found through include/after), option off: a leaf dependency's output is its option-on output
    # minus exactly the final line ending, and the whole tree equals the model's
    depp = [p for p in gen_batch(rng, 160 if tier_ == "quick" else 4000, large=False, modes=(0,), allow_errors=False, edges="dag") if any(p.deps.get(s_) for s_ in p.srcs)]
    d_on, d_off = [], []
    for p in depp:
        roots = [s_ for s_ in p.srcs if p.deps.get(s_)]
        root = roots[rng.below(len(roots))]
        for tn, lst in ((True, d_on), (False, d_off)):
            q = p.copy(); q.trailing = tn; q.id = p.id + ("d+" if tn else "d-"); q.inputs = [(root if rng.chance(1, 2) else gen.out_name(root)).lstrip("/")]; q.recursive = False; lst.append(q)
    d_all = []
    for p in depp:
        q = p.copy(); q.trailing = False; q.id = p.id + "d*"; q.inputs = ["."]; q.recursive = True; d_all.append(q)
    di, dm = both(d_on + d_off + d_all)
    for k, p in enumerate(depp):
        ion, ioff = di[k], di[len(depp) + k]; moff = dm[len(depp) + k]; iall = di[2 * len(depp) + k]
        # a dependency-free source gives the same output whether it was requested (directory input) or found through a directive
        for s_ in p.srcs:
            o_ = gen.out_name(s_)
            if p.deps.get(s_) or ioff["verdict"] != "ok" or iall["verdict"] != "ok" or o_ in ioff["U"] is False: continue
            if o_ in ioff["U"] and ioff["F"].get(o_) != iall["F"].get(o_) and len(violations) < 5:
                violations.append(proj_violation("C13", "with the option off, %s is built differently when it is found as a dependency than when it is requested" % o_, d_off[k], ioff, moff,
                                                 extra={"as_dependency": short(ioff["F"].get(o_)), "requested": short(iall["F"].get(o_))}))
        if (ioff["verdict"], ioff["F"]) != (moff["verdict"], moff["F"]) and len(violations) < 5:
            violations.append(proj_violation("C13", "a run with the option off that reaches files as dependencies differs from the model", d_off[k], ioff, moff, found=False))
        for s_ in p.srcs:
            if p.deps.get(s_): continue
            o_ = gen.out_name(s_); x, y = ion["F"].get(o_), ioff["F"].get(o_)
            if x is None or y is None or dict(p.files).get(o_) in (x, y): continue       # not reached by this run
            le = le_of_source(dict(p.files)[s_])
            if not (x == y or x == y + le):
                if len(violations) < 5:
                    violations.append(proj_violation("C13", "the option did not reach the dependency %s (found through a directive, not requested): on/off outputs differ by more than the final line ending" % o_, d_off[k], ioff, moff,
                                                     extra={"on": short(x), "off": short(y)}))
            elif x != y and not y.endswith(le): rel["dependency-leaf/plus-le"] += 1
            elif x == y and x.endswith(le) and len(x) > len(le):
                # the option-off output still ends with the ending: legal only if the source's last item does not produce a final newline either way
                rel["dependency-leaf/same"] += 1
    # an EMPTY list of inputs (library configuration) requests nothing: no file is processed under either setting of the option
    noin = []
    for tn in (True, False):
        for md in (0, 1):
            q = Project("noinputs%d%d" % (tn, md)); q.files = [("/a.txt.txtpp", b"line 1\nlast line\n"), ("/sub/b.md.txtpp", b"b\n")]; q.inputs = []; q.trailing = tn; q.mode = md; q.sched = [0] * 4
            noin.append(q)
    ni2, nm2 = both(noin, oracle=False)
    for q, a, b in zip(noin, ni2, nm2):
        made_ = sorted(f_ for f_, v_ in a["F"].items() if v_ is not None and f_ not in dict(q.files))
        if (made_ or a["verdict"] != b["verdict"]) and len(violations) < 5:
            violations.append(proj_violation("C13", "an empty input list: files were generated %s (and, generated that way, they ignore the option) / verdict %s vs model %s" % (made_, a["verdict"], b["verdict"]), q, a, b, found=bool(made_)))
    # history: built with the option on, then rebuilt with --needed and the option off (and the other way round):
    # the result must be the option-off (resp. on) output, not the leftover
    hist = []
    for k, p in enumerate(base[: 150 if tier_ == "quick" else 3000]):
        for (src_obs, tn) in ((oi[k], False), (oi[n + k], True)):
            if src_obs["verdict"] != "ok": continue
            q = follow(p, src_obs, "%s.h%d" % (p.id, int(tn))); q.mode = 1; q.trailing = tn; q.cmds = p.cmds
            q.want = oi[k if tn else n + k]["F"]
            hist.append(q)
    hi, hm = both(hist, oracle=False)
    for q, a, b in zip(hist, hi, hm):
        if (a["verdict"] != "ok" or a["F"] != q.want) and len(violations) < 5:
            diffp = [x for x in set(a["F"]) | set(q.want) if a["F"].get(x) != q.want.get(x)]
            violations.append(proj_violation("C13", "after a build with the option %s, a --needed build with the option %s did not produce the option-%s output: %s" %
                                             ("off" if q.trailing else "on", "on" if q.trailing else "off", "on" if q.trailing else "off", diffp[:3]), q, a, b))
    # sources that end with an ordinary text line
    tl = []
    for k in range(200 if tier_ == "quick" else 2000):
        r = rng.fork("tl%d" % k)
        p = Project("tl%d" % k)
        g = gen.SrcGen(r, le=r.choice(["\n", "\r\n"]), includes=[], temps=["t.tmp"], allow_errors=False, cmds=False)
        body = g.build(r.below(6)).decode()
        # an ORDINARY last line: not a directive and not a continuation of a preceding directive (no generator prefix starts like these)
        last = r.choice(["last line", "Zend", "9 lives", "L", "TXTPP#runx  y"])
        le = g.le
        src = (body if body == "" or body.endswith(le) else body + le) + last + r.choice(["", le])
        p.files = [("/s.txt.txtpp", src.encode())]; p.inputs = ["s.txt"]; p.sched = [0] * 8; p.last = last; p.le = le if (le in src) else "\n"
        tl.append(p)
    tl_on = [x.copy() for x in tl]; tl_off = [x.copy() for x in tl]
    for x in tl_off: x.trailing = False; x.id += "-"
    ti, tm = both(tl_on + tl_off)
    ntl = 0
    for k, p in enumerate(tl):
        a, b = ti[k], ti[len(tl) + k]
        if a["verdict"] != "ok": continue
        ntl += 1
        x, y = a["F"].get("/s.txt"), b["F"].get("/s.txt")
        first = p.files[0][1].split(b"\n")[0]
        le = b"\r\n" if (first.endswith(b"\r") and b"\n" in p.files[0][1]) else b"\n"
        if not (x is not None and y is not None and x.endswith(p.last.encode() + le) and y.endswith(p.last.encode()) and x == y + le):
            if len(violations) < 5:
                violations.append(proj_violation("C13", "source ends with an ordinary text line but the output does not end with that line (+ line ending iff the option is on)", tl_on[k], a, tm[k],
                                                 extra={"on": short(x), "off": short(y), "last_line": p.last}))
    # the binary: --no-trailing-newline must reach the build, the needed-build and the verify subcommand, and nothing else
    src = {"a.txt.txtpp": "line1\n-TXTPP#temp t.tmp\n-body\nlast line\n", "b.txt.txtpp": "only\n"}
    ses = cli_session(src, [["-q", "a.txt"], ["-q", "verify", "a.txt"], ["-q", "verify", "-n", "a.txt"], ["-q", "-n", "a.txt"], ["-q", "verify", "-n", "a.txt"],
                            ["-q", "verify", "a.txt"], ["-q", "-N", "-n", "b.txt"], ["-q", "-N", "b.txt"], ["-q", "clean", "a.txt"]])
    exp = [(0, b"line1\nlast line\n"), (0, None), (1, None), (0, b"line1\nlast line"), (0, None), (1, None), (0, None), (0, None), (0, None)]
    cli_ok = []
    for k, ((rc, tree, _), (erc, eout)) in enumerate(zip(ses, exp)):
        ok = rc == erc and (eout is None or tree.get("a.txt") == eout)
        cli_ok.append(ok)
        if not ok and len(violations) < 5:
            violations.append({"found": True, "replay": {"property": "C13", "what": "the binary's -n / --no-trailing-newline flag is not mapped as documented (step %d)" % k,
                               "steps": "build; verify; verify -n; build -n; verify -n; verify; -N -n b; -N b; clean", "exit": rc, "expected_exit": erc,
                               "a.txt": short(tree.get("a.txt")), "expected": short(eout)}})
    if ses[6][1].get("b.txt") != b"only" or ses[7][1].get("b.txt") != b"only\n" or ses[3][1].get("t.tmp") != b"body":
        if len(violations) < 5:
            violations.append({"found": True, "replay": {"property": "C13", "what": "-N -n / temp file under -n wrong on the binary",
                               "b_after_N_n": short(ses[6][1].get("b.txt")), "b_after_N": short(ses[7][1].get("b.txt")), "t.tmp": short(ses[3][1].get("t.tmp"))}})
    # the option is independent of every other build flag on the binary (seed C13-8: -n was dropped whenever -s was given):
    # for each combination of the other flags the build with -n is the build without it minus one final line ending,
    # and verify with the same flags agrees with the build it follows
    fsrc = {"a.txt.txtpp": "line1\n-TXTPP#run echo hi\nlast line\n"}
    combos = [[], ["-s", "sh -c"], ["--shell", "sh -c"], ["-j", "2"], ["-r"], ["-N"], ["-s", "sh -c", "-N", "-j", "3"], ["-s", "sh -c", "-r"]]
    flag_ok = []
    for fl in combos:
        fs = cli_session(fsrc, [["-q"] + fl + ["a.txt"], ["-q", "verify"] + [x for x in fl if x != "-N"] + ["a.txt"], ["-q"] + fl + ["-n", "a.txt"],
                                ["-q", "verify"] + [x for x in fl if x != "-N"] + ["-n", "a.txt"], ["-q", "-n"] + fl + ["a.txt"], ["-q", "verify"] + [x for x in fl if x != "-N"] + ["a.txt"]])
        want = [(0, b"line1\nhi\nlast line\n"), (0, b"line1\nhi\nlast line\n"), (0, b"line1\nhi\nlast line"), (0, b"line1\nhi\nlast line"), (0, b"line1\nhi\nlast line"), (1, b"line1\nhi\nlast line")]
        ok = all(rc == erc and tree.get("a.txt") == eout for (rc, tree, _), (erc, eout) in zip(fs, want))
        flag_ok.append(ok)
        if not ok and len(violations) < 5:
            violations.append({"found": True, "replay": {"property": "C13", "what": "with the other build flags %r the binary's -n does not remove exactly the final line ending (or verify disagrees with the build)" % (fl,),
                               "steps": "build; verify; build -n; verify -n; -n build; verify", "files": fsrc,
                               "observed": [(rc, short(tree.get("a.txt"))) for rc, tree, _ in fs], "expected": [(e, short(o)) for e, o in want]}})
    cov = {"evaluations": 2 * n + 2 * len(tl) + len(hist) + len(ses) + 6 * len(combos) + 3 * len(depp), "distinct_nontrivial": len(nontriv), "needed_history_cases": len(hist), "dependency_reach_runs": 3 * len(depp), "cli_flag_steps_ok": cli_ok, "cli_flag_combinations_ok": flag_ok,
           "rule": "every generated project built twice (option on / off), same controlled schedule; relation checked on the implementation's bytes: identical or on = off + line ending, temp files identical; "
                   "plus sources ending in an ordinary text line; distinct_nontrivial = distinct (on, off) output pairs",
           "relation_distribution": dict(rel), "text_line_ending_cases": ntl, "input_distribution": dist_of(base),
           "samples": [{"on": short(oi[0]["F"].get(gen.out_name(base[0].srcs[0]))), "off": short(oi[n]["F"].get(gen.out_name(base[0].srcs[0])))}]}
    xcheck(cov, violations, "C13", on + off, om)
    return {"coverage": cov, "violations": violations}
check_C13.needs_cli = True

def le_of_source(data):
    first = data.split(b"\n")[0]
    if b"\n" not in data: return b"\n"
    return b"\r\n" if first.endswith(b"\r") else b"\n"

def le_uniform(le, data):
    if le == b"\n": return b"\r" not in data
    i = 0
    while i < len(data):
        c = data[i:i + 1]
        if c == b"\n" and (i == 0 or data[i - 1:i] != b"\r"): return False
        if c == b"\r" and data[i + 1:i + 2] != b"\n": return False
        i += 1
    return True

def check_C12(tier_, sd, consts_ok, consts_detail):
    rng = Rng(sd).fork("C12")
    n = 700 if tier_ == "quick" else 25000
    projs = gen_batch(rng, n, modes=(0,), allow_errors=False)
    # documented domain D1: CR only immediately before LF, in every input
    for p in projs:
        p.files = [(f, c.replace(b"\r\n", b"\x00").replace(b"\r", b"").replace(b"\x00", b"\r\n").replace(b"\\r\\n", b"\x00").replace(b"\\r", b"").replace(b"\x00", b"\\r\\n")) for f, c in p.files]
    oi, om = both(projs)
    violations = []; classes = collections.Counter(); nontriv = set()
    for p, a, b in zip(projs, oi, om):
        srcmap = {gen.out_name(s): s for s in p.srcs}
        fm = dict(p.files)
        for path in generated_paths(p, a):
            data = a["F"][path]
            # which source produced it: outputs by name, temp files by stem prefix
            src = srcmap.get(path)
            if src is None:
                stem = path.rsplit("/", 1)[1].split("_")[0]
                cands = [s for s in p.srcs if s.rsplit("/", 1)[1].split(".")[0] == stem]
                src = cands[0] if cands else None
            if src is None: continue
            le = le_of_source(fm[src])
            ok = le_uniform(le, data)
            classes[("CRLF" if le == b"\r\n" else "LF") + ("/ok" if ok else "/MIXED")] += 1
            if b"\n" in data: nontriv.add((le, data))
            if not ok and len(violations) < 5:
                violations.append(proj_violation("C12", "%s contains a line terminator other than the ending of the first line of %s" % (path, src), p, a, b,
                                                 extra={"bytes": repr(data[:300])}))
        if (a["verdict"], a["F"]) != (b["verdict"], b["F"]) and len(violations) < 5:
            violations.append(proj_violation("C12", "bytes differ from the model", p, a, b, found=False))
    # history: build, then ONLY the line endings of the sources change (an autocrlf checkout), then rebuild with --needed and with
    # a plain build on top of the old outputs and temp files: every generated file must follow the new ending
    flips = []; p0_files = {}
    for p, a in list(zip(projs, oi))[: 120 if tier_ == "quick" else 3000]:
        if a["verdict"] != "ok": continue
        for md in (1, 0):
            q = follow(p, a, "%s.flip%d" % (p.id, md)); q.mode = md; q.cmds = p.cmds
            fm2 = dict(q.files)
            for s_ in p.srcs:
                c = fm2[s_].replace(b"\r\n", b"\n")
                if le_of_source(fm2[s_]) == b"\n": c = c.replace(b"\n", b"\r\n")
                fm2[s_] = c
            q.files = sorted(fm2.items()); flips.append(q); p0_files[q.id] = p.files
    # ... and the other way round: only the OUTPUTS were converted (the sources keep their endings), then verify runs - it fails, but the temp
    # files it rewrites on the way must still follow the SOURCE's first line, not the output's
    for p, a in list(zip(projs, oi))[: 120 if tier_ == "quick" else 3000]:
        if a["verdict"] != "ok" or not any(k_.endswith(".tmp") or "_t" in k_.rsplit("/", 1)[-1] for k_ in generated_paths(p, a)): continue
        q = follow(p, a, "%s.oflip" % p.id); q.mode = 3; q.cmds = p.cmds
        fm2 = dict(q.files)
        for s_ in p.srcs:
            o_ = gen.out_name(s_)
            if fm2.get(o_) is None: continue
            c = fm2[o_].replace(b"\r\n", b"\n")
            if le_of_source(fm2[s_]) == b"\n": c = c.replace(b"\n", b"\r\n")
            fm2[o_] = c
        # the temp files are removed so that verify has to write them again
        for k_ in generated_paths(p, a):
            if k_ not in {gen.out_name(s_) for s_ in p.srcs}: fm2.pop(k_, None)
        q.files = sorted(fm2.items()); flips.append(q); p0_files[q.id] = p.files
    fi_, fm_ = both(flips)
    for q, a, b in zip(flips, fi_, fm_):
        srcmap = {gen.out_name(s_): s_ for s_ in q.srcs}; fmq = dict(q.files); bad = None
        for path in [k_ for k_, v_ in a["F"].items() if v_ is not None and not k_.endswith(".txtpp") and ".txtpp." not in k_]:
            data = a["F"][path]
            src = srcmap.get(path)
            if src is not None and q.mode == 3: continue       # verify does not write outputs: what lies there was planted
            if src is None:
                stem = path.rsplit("/", 1)[1].split("_")[0]
                cands = [s_ for s_ in q.srcs if s_.rsplit("/", 1)[1].split(".")[0] == stem]
                src = cands[0] if cands and path not in dict(p0_files.get(q.id, ())) else None
            if src is None: continue
            le = le_of_source(fmq[src])
            if not le_uniform(le, data): bad = (path, src, data)
            else: classes[("CRLF" if le == b"\r\n" else "LF") + "/after-flip/ok"] += 1
        if bad and len(violations) < 5:
            violations.append(proj_violation("C12", "after only the line endings of %s changed, the rebuilt %s keeps the old terminators (mode %s)" % (bad[1], bad[0], {1: "needed", 0: "build", 3: "verify"}[q.mode]), q, a, b,
                                             extra={"bytes": repr(bad[2][:200])}))
        elif (a["verdict"], a["F"]) != (b["verdict"], b["F"]) and len(violations) < 5:
            violations.append(proj_violation("C12", "after a line-ending flip of the sources the rebuilt tree differs from the model", q, a, b, found=False))
    # the ending is sniffed from the FIRST line whatever its length: first lines around and beyond the 8 KiB reader buffer
    longp = []
    for k, flen in enumerate([10, 4000, 8189, 8190, 8191, 8192, 8193, 9000, 16383, 16384, 20000] if tier_ == "quick" else list(range(8180, 8200)) + [4095, 4096, 16383, 16384, 16385, 30000, 70000]):
        for le in ("\r\n", "\n"):
            other = "\n" if le == "\r\n" else "\r\n"
            p = Project("long%d%s" % (k, "c" if le == "\r\n" else "l"))
            src = "F" * flen + le + "second" + other + "-TXTPP#include inc.txt" + le + "=TXTPP#temp long.tmp" + other + "=body1" + le + "=body2" + other + other + "last" + le
            p.files = [("/long.txt.txtpp", src.encode()), ("/inc.txt", ("i1" + other + "i2" + le).encode())]
            p.inputs = ["long.txt"]; p.sched = [0] * 4; p.srcs = ["/long.txt.txtpp"]
            longp.append(p)
    dots = []
    for k_, (n1, n2) in enumerate([("notes.q1.txtpp.md", "notes.2024.q1.txtpp.md"), ("a.b.txt.txtpp", "a.x.b.txt.txtpp"), ("r.v1.txtpp.c", "r.v1.v2.txtpp.c")]):
        for flip in (0, 1):
            q = Project("dots%d_%d" % (k_, flip)); e1, e2 = ("\n", "\r\n") if not flip else ("\r\n", "\n")
            q.files = [("/" + n1, ("first" + e1 + "second" + e1).encode()), ("/" + n2, ("eins" + e2 + "zwei" + e2).encode())]
            q.srcs = ["/" + n1, "/" + n2]; q.inputs = ["."]; q.sched = [flip, 0, 0, 0]
            dots.append(q)
    dti, dtm = both(dots, oracle=False)
    for q, a, b in zip(dots, dti, dtm):
        for s_ in q.srcs:
            o_ = run_model_name(s_); data = a["F"].get(o_) if o_ else None
            le = le_of_source(dict(q.files)[s_])
            if a["verdict"] != "ok" or data is None or not le_uniform(le, data) or (le == b"\r\n") != (b"\r\n" in data):
                if len(violations) < 5:
                    violations.append(proj_violation("C12", "%s (output of %s, a name with several dots) is missing or does not use the line ending of its own source's first line" % (o_, s_), q, a, b,
                                                     extra={"bytes": repr((data or b"")[:80])}))
                break
        else:
            classes["dotted-names/ok"] += 1
    louts = [parse_obs(x) for x in run_impl([p.text() for p in longp])]
    for p, a in zip(longp, louts):
        le = le_of_source(dict(p.files)["/long.txt.txtpp"])
        for path in ("/long.txt", "/long.tmp"):
            data = a["F"].get(path)
            if a["verdict"] != "ok" or data is None or not le_uniform(le, data) or (le == b"\r\n" and b"\r\n" not in data):
                if len(violations) < 5:
                    violations.append(proj_violation("C12", "%s does not use the line ending of the (long) first line of its source" % path, p, a, None,
                                                     extra={"first_line_length": len(dict(p.files)["/long.txt.txtpp"].split(b"\n")[0]), "bytes_tail": repr((data or b"")[-80:])}))
            else: classes[("CRLF" if le == b"\r\n" else "LF") + "/long-first-line/ok"] += 1
    cov = {"evaluations": n + len(longp) + len(flips), "distinct_nontrivial": len(nontriv), "long_first_line_cases": len(longp), "line_ending_flip_histories": len(flips),
           "rule": "generated projects with endings chosen independently for the first line, later lines, included files, command output, temp bodies and tag contents (CR only before LF, D1); "
                   "every generated file of the implementation is scanned: LF mode => no CR, CRLF mode => every LF preceded by CR and every CR followed by LF; "
                   "plus sources whose first line is 10 .. 20000 bytes long (around the 8 KiB and 16 KiB buffer sizes), implementation only; "
                   "distinct_nontrivial = distinct (ending, bytes) of generated files with at least one line terminator",
           "scan_distribution": dict(classes), "input_distribution": dist_of(projs), "samples": [repr(x[1][:120]) for x in list(nontriv)[:2]]}
    xcheck(cov, violations, "C12", projs, om)
    return {"coverage": cov, "violations": violations}

def check_C16(tier_, sd, consts_ok, consts_detail):
    rng = Rng(sd).fork("C16")
    n = 500 if tier_ == "quick" else 20000
    words = gen.WORDS + gen.LOOKALIKE + ["mid\r", "", " ", "\tx", "TXTPP#", "TXTPP#run", "-TXTPP#write x", "// TXTPP#include f", "TAG1", "é　x", "a\tb  "]
    # (a) sources without any directive line (look-alikes included); classify with the model
    texts = []
    for k in range(n):
        r = rng.fork("t%d" % k)
        texts.append([r.choice(words) for _ in range(r.below(8))])
    dlines = sorted({l for t in texts for l in t})
    cls = dict(zip(dlines, run_model(["D " + hx(l) for l in dlines])))
    projs = []; meta = []
    for k, t in enumerate(texts):
        t = [l for l in t if cls[l] == "D -"]
        r = rng.fork("u%d" % k)
        if k % 80 == 7 and t and k < 80 * 40:
            # a very long FIRST line (around and beyond the 8 KiB read buffer): pass-through and the detected ending must not depend on it
            t = [(t[0] + " ") * (1 + [8100, 8192, 9000, 16400, 20000][(k // 80) % 5] // (len(t[0]) + 1))] + t[1:]
            if run_model(["D " + hx(t[0])])[0] != "D -": t = ["x" * 9000] + t[1:]
        le = r.choice(["\n", "\r\n"]); final = r.chance(2, 3)
        src = le.join(t) + (le if (final and t) else "")
        p = Project("id%d" % k); p.files = [("/s.txt.txtpp", src.encode())]; p.inputs = ["s.txt"]; p.trailing = r.chance(2, 3); p.sched = [0] * 4
        projs.append(p); meta.append((t, le, final))
    # (b) escaping arbitrary lines with write
    esc = []; emeta = []
    for k in range(n):
        r = rng.fork("w%d" % k)
        ls = [r.choice(["-TXTPP#run echo no", "TXTPP#include x", "plain", "", "  lead (not first)", "TAG1 T2", "é", "x  y", "=TXTPP#",
                        "TXTPP#", "TXTPP# text", "TXTPP#write w", "TXTPP#tag TAG1", "TXTPP#temp f", "+TXTPP#", "TXTPP#after a", "TXTPP#run"]) for _ in range(1 + r.below(5))]
        ls[0] = ls[0].lstrip() or "first"
        ls = [l.rstrip() for l in ls]
        if k % 5 == 2: ls = [""] * (1 + k % 2) + ls       # the written text begins with blank line(s): the first argument of `write` is empty
        le = r.choice(["\n", "\r\n"])
        cont = "+" if k % 2 else " "            # continuation lines repeat the prefix, or use as many spaces (a blank content line is then a line of spaces)
        body = ["+TXTPP#write " + ls[0]] + [cont + l for l in ls[1:]]
        pre = r.choice([[], ["-TXTPP#tag TAG1", "-TXTPP#write stored"]])   # a stored tag must not be substituted into write output
        post = ["use TAG1"] if pre else []
        if post: body = body + [cont]       # one more (empty) argument puts the following text on its own line
        src = le.join(pre + body) + le + (le.join(post) + le if post else "")
        p = Project("wr%d" % k); p.files = [("/s.txt.txtpp", src.encode())]; p.inputs = ["s.txt"]; p.sched = [0] * 4
        esc.append(p); emeta.append((ls, le, bool(pre)))
    # (c) write output captured by a tag is inert too: it may MENTION other tags; when both tags are used on one line each is replaced
    # at its own occurrence in that line, and nothing inside an injected value is looked at again
    capt = []; cmeta = []
    for k in range(60 if tier_ == "quick" else 1500):
        r = rng.fork("c%d" % k)
        n1, n2 = r.choice([("AAA", "BBB"), ("T1", "U2"), ("LEFT", "RIGHT")])
        v1 = r.choice(["the %s marker stays" % n2, "%s" % n2, "x%sx and %s" % (n2, n1), "plain"])
        v2 = r.choice(["hello", "%s again" % n1, ""])
        use = r.choice(["[%s] [%s]" % (n1, n2), "%s%s" % (n1, n2), "[%s] mid [%s] [%s]" % (n1, n2, n1), "[%s] then [%s]" % (n2, n1)])
        L = ["-TXTPP#tag " + n1, "=TXTPP#write " + v1, "-TXTPP#tag " + n2, "=TXTPP#write " + v2, use]
        def sub1(line, order):
            # each tag: first occurrence in the ORIGINAL line, replaced by its value; values are not rescanned
            pos = sorted((line.find(nm), nm, val) for nm, val in order if line.find(nm) >= 0)
            out = ""; last = 0
            for i_, nm, val in pos:
                if i_ < last: continue
                out += line[last:i_] + val; last = i_ + len(nm)
            return out + line[last:]
        exp = sub1(use, [(n1, v1), (n2, v2)])
        p = Project("cp%d" % k); p.files = [("/s.txt.txtpp", ("\n".join(L) + "\n").encode())]; p.inputs = ["s.txt"]; p.sched = [0] * 4
        capt.append(p); cmeta.append(exp)
    # the same identity when an older, longer version of the output exists and the run is a --needed run (the comparison with the
    # existing file must be exact, not a prefix test)
    longer = []
    for p in (projs[: 40 if tier_ == "quick" else 800] + esc[: 20 if tier_ == "quick" else 400]):
        q = p.copy(); q.id = p.id + ".N"; q.mode = 1
        srcb = q.files[0][1]
        q.files = list(q.files) + [("/s.txt", b"\x00PLACEHOLDER")]
        longer.append(q)
    oi, om = both(projs + esc + capt, oracle=False)
    # plant "fresh output + an old tail" (and for every third case "fresh output without its final byte")
    nproj = len(projs); lsteps = []
    for q in longer:
        base_id = q.id[:-2]
        k_ = next(i_ for i_, p_ in enumerate(projs + esc) if p_.id == base_id)
        fresh = oi[k_]["F"].get("/s.txt")
        if oi[k_]["verdict"] != "ok" or fresh is None: continue
        planted = fresh + b"old tail line\n" if len(lsteps) % 3 else (fresh[:-1] if fresh else b"x")
        q.files = [f_ for f_ in q.files if f_[0] != "/s.txt"] + [("/s.txt", planted)]; q.fresh = fresh
        lsteps.append(q)
    li_, lm_ = both(lsteps, oracle=False)
    violations = []; nontriv = set()
    for q, a, b in zip(lsteps, li_, lm_):
        if a["verdict"] == "ok" and a["F"].get("/s.txt") != q.fresh and len(violations) < 5:
            violations.append(proj_violation("C16", "--needed on top of an older version of the output: the text was not reproduced exactly (a tail or a missing byte of the old file survives)", q, a, b,
                                             extra={"expected": short(q.fresh), "got": short(a["F"].get("/s.txt"))}))
        elif (a["verdict"], a["F"]) != (b["verdict"], b["F"]) and len(violations) < 5:
            violations.append(proj_violation("C16", "bytes differ from the model (--needed on an older output)", q, a, b, found=False))
    for k, p in enumerate(capt):
        a, b = oi[len(projs) + len(esc) + k], om[len(projs) + len(esc) + k]
        got = a["F"].get("/s.txt")
        if a["verdict"] == "ok" and got != (cmeta[k] + "\n").encode():
            if len(violations) < 5:
                violations.append(proj_violation("C16", "write output captured by a tag was itself subjected to tag substitution (or the wrong occurrence was replaced)", p, a, b,
                                                 extra={"expected": cmeta[k], "got": short(got)}))
        elif (a["verdict"], a["F"]) != (b["verdict"], b["F"]) and len(violations) < 5:
            violations.append(proj_violation("C16", "bytes differ from the model", p, a, b, found=False))
        elif a["verdict"] == "ok": nontriv.add(got)
    for k, p in enumerate(projs):
        a, b = oi[k], om[k]
        t, le, final = meta[k]
        # the line ending is the one of the first line; OS default when the source has none
        srcb = p.files[0][1]
        ole = le_of_source(srcb).decode()
        exp = ole.join(t) + (ole if (t and p.trailing) else "")
        # a source whose only content is empty lines etc.: lines() semantics — the expected text is the lines re-joined
        got = a["F"].get("/s.txt")
        explines = srcb.decode().replace("\r\n", "\n").split("\n")
        if explines and explines[-1] == "": explines = explines[:-1]
        exp = ole.join(explines) + (ole if (explines and p.trailing) else "")
        if a["verdict"] != "ok" or got != exp.encode():
            if len(violations) < 5:
                violations.append(proj_violation("C16", "a source without directive lines was not reproduced line for line", p, a, b, extra={"expected": exp, "got": short(got)}))
        else: nontriv.add(got)
        if (a["verdict"], a["F"]) != (b["verdict"], b["F"]) and len(violations) < 5:
            violations.append(proj_violation("C16", "bytes differ from the model", p, a, b, found=False))
    for k, p in enumerate(esc):
        a, b = oi[len(projs) + k], om[len(projs) + k]
        ls, le, has_tag = emeta[k]
        exp = le.join(ls) + le + ("use stored" + le if has_tag else "")
        got = a["F"].get("/s.txt")
        if a["verdict"] != "ok" or got != exp.encode():
            if len(violations) < 5:
                violations.append(proj_violation("C16", "lines escaped with write were not reproduced exactly", p, a, b, extra={"expected": exp, "got": short(got)}))
        else: nontriv.add(got)
        if (a["verdict"], a["F"]) != (b["verdict"], b["F"]) and len(violations) < 5:
            violations.append(proj_violation("C16", "bytes differ from the model", p, a, b, found=False))
    cov = {"evaluations": len(projs) + len(esc) + len(capt) + len(lsteps), "distinct_nontrivial": len(nontriv), "captured_write_cases": len(capt), "needed_on_older_output_cases": len(lsteps),
           "rule": "(a) sources made only of lines the grammar does not recognise (look-alikes, blanks, non-ASCII), LF/CRLF, with/without final newline, option on/off: output must equal the lines re-joined; "
                   "(b) line sequences (directive look-alikes, blanks, tag names) escaped with a write directive, optionally with a stored tag around: output must equal the lines; distinct_nontrivial = distinct correct outputs",
           "identity_cases": len(projs), "write_roundtrip_cases": len(esc),
           "samples": [projs[1].files[0][1].decode(), esc[1].files[0][1].decode()]}
    xcheck(cov, violations, "C16", [p for p in projs + esc + capt], om)
    return {"coverage": cov, "violations": violations}

# ------------------------------------------------------------------ C14 tags
def check_C14(tier_, sd, consts_ok, consts_detail):
    rng = Rng(sd).fork("C14")
    names = ["A", "AB", "B", "BA", "ABA", ""]
    contents = ["", "A", "v\n", "v\r\nw", "B A", "p\r\nq\nr\r\n"]
    maxlen = 5 if tier_ == "quick" else 6
    lines = []
    for n in range(maxlen + 1):
        for combo in itertools.product("ABx", repeat=n): lines.append("".join(combo))
    probe = "A AB B BA ABA x"
    cases = []
    k = 0
    for npairs in (1, 2, 3):
        for seq in itertools.product(names, repeat=npairs):
            for li, line in enumerate(lines):
                k += 1
                ops = []
                for j, nm in enumerate(seq):
                    c = contents[(k + j) % len(contents)]
                    ops += ["c" + hx(nm), "s" + hx(c)]
                le = "\n" if k % 2 else "\r\n"
                ops += ["i" + hx(line), "i" + hx(probe), "c" + hx("ZZ"), "c" + hx("Q")]
                cases.append("T %s %s" % (hx(le), " ".join(ops)))
    env = dict(os.environ, VPH_TAG_REPEAT="8")
    impl = run_impl(cases, env=env); model = run_model(cases)
    bad = diff_cases(cases, impl, model)
    # whole-file lifecycle: the listener skips directives without output; unused tags are errors; no indentation
    projs = []
    for j in range(300 if tier_ == "quick" else 3000):
        r = rng.fork("f%d" % j)
        L = ["    -TXTPP#tag NAME"]
        for _ in range(r.below(3)):
            L.append(r.choice(["    =TXTPP#temp t%d.tmp\n    =body" % r.below(2), "    +TXTPP#", "    ~TXTPP#after inc.txt", "    ~TXTPP#tag OTHER"]))
        if r.chance(1, 4): L.append(r.choice(["    =TXTPP#run true", "    =TXTPP#run printf ''", "    =TXTPP#run printf 'one line\\n'"]))     # a command that prints NOTHING still feeds the waiting tag
        L.append(r.choice(["    /TXTPP#write stored line", "    /TXTPP#include inc.txt", "    /TXTPP#write two\n    /lines\n    /", "text in between"]))
        L.append(r.choice(["a NAME b", "NAME NAME", "no use", "  indented NAME", "xNAMEy NAME"]))
        if r.chance(1, 3): L.append("late NAME")
        p = Project("lc%d" % j); p.files = [("/s.txt.txtpp", ("\n".join(L) + "\n").encode()), ("/inc.txt", r.choice([b"inc\n", b"i1\r\ni2", b""]))]
        if j % 2:
            # inc.txt is itself GENERATED: the include/after becomes a dependency directive, the file gets two passes and the
            # tag is pending (listening or stored) at the end of the first one
            p.files = [p.files[0], ("/inc.txt.txtpp", r.choice([b"gen inc\n", b"g1\r\ng2\r\n", b"-TXTPP#write NAME in a dependency\n"]))]
        p.inputs = ["s.txt"]; p.sched = [r.below(2) for _ in range(6)]
        projs.append(p)
    for j_, flen in enumerate([8191, 9000] if tier_ == "quick" else [8190, 8191, 8192, 9000, 16500]):
        for le_ in ("\r\n", "\n"):
            q = Project("lclong%d%s" % (j_, "c" if le_ == "\r\n" else "l"))
            other = "\n" if le_ == "\r\n" else "\r\n"
            src = "B" * flen + le_ + "-TXTPP#tag NAME" + le_ + "=TXTPP#include inc.txt" + le_ + "x NAME y" + le_
            q.files = [("/s.txt.txtpp", src.encode()), ("/inc.txt", ("i1" + other + "i2" + other + "i3").encode())]; q.inputs = ["s.txt"]; q.sched = [0] * 4
            projs.append(q)
    complete_oracles(projs)
    oi, om = both(projs)
    pbad = [j for j in range(len(projs)) if (oi[j]["verdict"], oi[j]["F"] if oi[j]["verdict"] == "ok" else None) != (om[j]["verdict"], om[j]["F"] if om[j]["verdict"] == "ok" else None)]
    violations = []
    for kk in bad[:5]:
        nd = impl[kk].startswith("T nondeterministic")
        violations.append({"found": True, "replay": {"property": "C14", "what": ("the result differs between runs (hash-map iteration order)" if nd else
                           "TagState behaves differently from the specification (Tags.v; theorems of props/C14.v)"),
                           "case": cases[kk], "case_readable": decode_case(cases[kk]), "implementation": impl[kk], "model(spec)": model[kk]}})
    for j in pbad[:3]:
        violations.append(proj_violation("C14", "tag lifecycle in a whole file differs from the specification", projs[j], oi[j], om[j]))
    cv, ncv = chain3_violations("C14", "a tag that captures the include of a generated file is stored and substituted once")
    violations += cv
    outcomes = collections.Counter()
    for m in model:
        t = m.split(" ")
        outcomes["create-err" if "err" in t[1:7] else "stored"] += 1
    cov = {"evaluations": len(cases) * 8 + len(projs), "distinct_nontrivial": len(set(m for m in model if " ok " in m)),
           "rule": "every sequence of <= 3 create/try_store pairs with names from {A, AB, B, BA, ABA, empty} (prefix-related names included) x every target line over {A,B,x} up to length %d "
                   "x contents rotated over {empty, A, v LF, v CRLF w, B A, a CRLF/LF mix}, followed by a probe line revealing the remaining store and two more creates; "
                   "each case run 8 times in-process with fresh hash seeds (all 8 must agree); plus whole-file lifecycle cases; distinct_nontrivial = distinct model observations with at least one successful op" % maxlen,
           "exhaustive": True, "exhaustive_bound": "<= 3 tags, lines of <= %d symbols" % maxlen, "tag_cases": len(cases), "repeats_per_case": 8, "whole_file_cases": len(projs),
           "outcome_distribution": dict(outcomes), "samples": [decode_case(cases[len(cases) // 2]), decode_case(cases[-1])]}
    return {"coverage": cov, "violations": violations}

# ------------------------------------------------------------------ histories: C06, C07, C08, C09, C10
def built_trees(rng, n, tag, **kw):
    """generated projects that build successfully, with the (model = implementation) tree after the build"""
    kw.setdefault("allow_errors", False)
    projs = gen_batch(rng, n, modes=(0,), **kw)
    for p in projs:
        p.inputs = ["."]; p.recursive = True     # process every source: verify/clean then cover what build produced
    oi, om = both(projs)
    out = []
    for p, a, b in zip(projs, oi, om):
        if a["verdict"] == "ok" and (a["F"], a["verdict"]) == (b["F"], b["verdict"]): out.append((p, a))
    return out, len(projs)

def tamper(rng, data):
    k = rng.below(7)
    if k == 0 or len(data) == 0: return data + b"x", "append"
    if k == 1: return data[:-1], "truncate-last"
    if k == 2: return data[1:], "delete-first"
    if k == 3:
        i = rng.below(len(data)); return data[:i] + bytes([data[i] ^ 1]) + data[i + 1:], "flip@%d" % i
    if k == 4:
        i = rng.below(len(data) + 1); return data[:i] + b"\n" + data[i:], "insert-lf@%d" % i
    if k == 5: return data[:len(data) // 2], "truncate-half"
    return b"", "empty"

def check_C06(tier_, sd, consts_ok, consts_detail):
    rng = Rng(sd).fork("C06")
    built, ngen = built_trees(rng, 260 if tier_ == "quick" else 5000, "C06")
    steps = []; meta = []
    for k, (p, a) in enumerate(built):
        outs = [gen.out_name(s) for s in p.srcs]
        r = rng.fork("h%d" % k)
        for v in range(6 if tier_ == "quick" else 10):
            q = follow(p, a, "%s.v%d" % (p.id, v)); q.mode = 3
            fm = dict(q.files); what = "none"; expect_fail = False
            sel = r.below(6)
            temps_ = [k_ for k_, v_ in a["F"].items() if v_ is not None and k_ not in dict(p.files) and k_ not in outs]
            if v == 0: pass
            elif sel == 5 and temps_:
                # a temp file was altered by hand (or is left over from an older source): the outputs are still exactly what a build
                # writes now, so verify passes - it rewrites the temp file on the way, which C06 allows (only outputs are read-only)
                t = r.choice(temps_); fm[t] = r.choice([b"stale temp\n", b"", fm[t] + b"more"]); what = "stale-temp " + t; expect_fail = False
            elif sel == 5: pass
            elif sel == 0:   # delete an output
                t = r.choice(outs); fm.pop(t, None); what = "delete " + t; expect_fail = True
            elif sel in (1, 2, 3):
                t = r.choice(outs); new, how = tamper(r, fm[t]); expect_fail = new != fm[t]; fm[t] = new; what = "%s %s" % (how, t)
            else:
                if not q.trailing: pass
                q.trailing = not q.trailing; what = "option flipped"; expect_fail = None   # depends on the sources: decided by a fresh build
            q.files = sorted(fm.items())
            # requested inputs: everything, or one file (dependencies are verified too)
            if r.chance(1, 3):
                q.inputs = [r.choice(p.srcs).lstrip("/")]; q.recursive = False
                expect_fail = None if expect_fail else expect_fail
            q.sched = [r.below(6) for _ in range(30)]
            # on two variants per project the coordinator also polls an EMPTY queue before every completion (a worker that is
            # slower than the coordinator's poll): the verdict of a task still in flight must not be lost
            q.idle = v in (1, 2)
            steps.append(q); meta.append((k, what, expect_fail))
    # sources whose OUTPUT depends on a temp file they write themselves (temp, then include of it), alone or behind a dependency:
    # after a build, (a) the temp file is altered by hand - verify still passes, the outputs are what a build writes now;
    # (b) only the temp BODY in the source is edited - the output is stale, verify must fail although the old temp file still matches it
    tq = []
    for k_ in range(30 if tier_ == "quick" else 400):
        r = rng.fork("tv%d" % k_); q0 = Project("tv%d" % k_)
        body = ["é item %d" % k_, "second"][: 1 + r.below(2)]
        def src_of(bd): return ("\n".join((["/TXTPP#include dep.txt"] if k_ % 2 else []) + ["list:", "-TXTPP#temp items%d.tmp" % k_] + ["-" + x for x in bd] + ["", "  =TXTPP#include items%d.tmp" % k_, "end"]) + "\n").encode()
        q0.files = [("/list.txt.txtpp", src_of(body))] + ([("/dep.txt.txtpp", b"dependency\n")] if k_ % 2 else [])
        q0.srcs = [f_ for f_, _ in q0.files]; q0.inputs = ["."]; q0.recursive = True; q0.sched = [r.below(3) for _ in range(8)]
        tq.append((q0, src_of(body[:-1] + ["EDITED " + body[-1]])))
    t0i, t0m = both([q0 for q0, _ in tq], oracle=False)
    tsteps = []; tmeta = []
    for (q0, edited), a0 in zip(tq, t0i):
        if a0["verdict"] != "ok": continue
        tmp = [k_ for k_ in a0["F"] if k_.endswith(".tmp")][0]
        for what in ("temp-altered", "temp-deleted", "temp-body-edited"):
            q = follow(q0, a0, q0.id + "." + what); q.mode = 3; fm = dict(q.files)
            if what == "temp-altered": fm[tmp] = b"altered by hand\n"
            elif what == "temp-deleted": fm.pop(tmp)
            else: fm["/list.txt.txtpp"] = edited
            q.files = sorted(fm.items()); q.sched = q0.sched; tsteps.append(q); tmeta.append(what)
    ti_, tm_ = both(tsteps, oracle=False)
    oi, om = both(steps)
    violations = []; verd = collections.Counter(); nontriv = set()
    for q, a, b, what in zip(tsteps, ti_, tm_, tmeta):
        verd[(what, a["verdict"])] += 1
        if what != "temp-body-edited" and a["verdict"] != "ok" and len(violations) < 5:
            violations.append(proj_violation("C06", "verify failed although every output is exactly what a build writes now (%s)" % what, q, a, b))
        elif what == "temp-body-edited" and a["verdict"] == "ok" and len(violations) < 5:
            violations.append(proj_violation("C06", "verify succeeded although the source's temp body was edited and the output (which includes the temp file) is stale", q, a, b))
        elif a["verdict"] != b["verdict"] and len(violations) < 5:
            violations.append(proj_violation("C06", "verify verdict differs from the model (%s)" % what, q, a, b, found=False))
        if any(a["F"].get(o_) != dict(q.files).get(o_) for o_ in ("/list.txt", "/dep.txt") if o_ in dict(q.files)) and len(violations) < 5:
            violations.append(proj_violation("C06", "verify changed an output (%s)" % what, q, a, b))
    for q, a, b, (k, what, expect_fail) in zip(steps, oi, om, meta):
        verd[(what.split(" ")[0], a["verdict"])] += 1
        before = dict(q.files)
        gp = {gen.out_name(s) for s in built[k][0].srcs}
        # read-only: no output is created, modified or deleted (bytes and mtime/inode)
        for t in gp:
            if a["F"].get(t) != before.get(t) or t in a["U"]:
                if len(violations) < 5: violations.append(proj_violation("C06", "verify changed or touched the output %s" % t, q, a, b)); break
        if expect_fail is True and a["verdict"] == "ok" and len(violations) < 5:
            violations.append(proj_violation("C06", "verify succeeded although an output was tampered with (%s)" % what, q, a, b))
        if expect_fail is False and what == "none" and a["verdict"] != "ok" and len(violations) < 5:
            violations.append(proj_violation("C06", "verify failed on an up-to-date tree", q, a, b))
        if expect_fail is False and what.startswith("stale-temp") and a["verdict"] != "ok" and b["verdict"] == "ok" and len(violations) < 5:
            violations.append(proj_violation("C06", "verify failed although every output is up to date (only a temp file was stale: %s)" % what, q, a, b))
        if a["verdict"] != b["verdict"] and len(violations) < 5:
            violations.append(proj_violation("C06", "verify verdict differs from the model (%s)" % what, q, a, b, found=(expect_fail is not None)))
        if what != "none": nontriv.add((k, what))
    vses = cli_session({"a.txt.txtpp": "a\n", "a.txt": "a\nEXTRA", "b.md.txtpp": "b\n", "keep.txt": "k"},
                       [["-N", "verify", "-q"], ["--needed", "-q", "verify", "-q", "a.txt"], ["-N", "-n", "verify", "-q", "b.md"], ["verify", "-q", "b.md", "a.txt"], ["-q", "-N"], ["-N", "verify", "-q"]])
    v_ok = [vses[0][0] == 1 and vses[0][1].get("a.txt") == b"a\nEXTRA" and "b.md" not in vses[0][1], vses[1][0] == 1 and vses[1][1].get("a.txt") == b"a\nEXTRA",
            vses[2][0] == 1 and "b.md" not in vses[2][1], vses[3][0] == 1 and "b.md" not in vses[3][1], vses[4][0] == 0, vses[5][0] == 0]
    if not all(v_ok) and len(violations) < 6:
        violations.append({"found": True, "replay": {"property": "C06", "what": "`txtpp [flags] verify` did not fail on stale/missing outputs, or created/changed an output",
                           "steps": "-N verify (a.txt stale, b.md missing: exit 1, nothing touched); --needed -q verify a.txt; -N -n verify b.md; verify b.md a.txt; -N (build); -N verify (passes)", "steps_ok": v_ok, "exits": [x[0] for x in vses]}})
    cov = {"evaluations": len(steps) + ngen + len(tq) + len(tsteps) + len(vses), "distinct_nontrivial": len(nontriv), "temp_dependent_output_cases": len(tsteps), "cli_verify_steps_ok": v_ok,
           "rule": "generated projects are built, then verified after: nothing / deleting an output / one-byte flip, insertion, deletion, truncation, extension, emptying of an output (requested file or dependency) / flipping the trailing-newline option; "
                   "observed: verdict, and bytes + mtime + inode of every output before vs after; distinct_nontrivial = distinct (project, tampering)",
           "built_projects": len(built), "runs_with_idle_polls": sum(1 for q in steps if getattr(q, "idle", False)), "verdicts_by_tampering": {"%s/%s" % k: v for k, v in verd.items()},
           "samples": [{"tamper": meta[1][1], "verdict": oi[1]["verdict"]}]}
    xcheck(cov, violations, "C06", steps, om)
    return {"coverage": cov, "violations": violations}

check_C06.needs_cli = True

def escaping_temp_projects(rng, n, tag):
    """sources whose temp targets lie in a sub-directory, in the parent directory, and OUTSIDE the base directory"""
    out = []
    for k in range(n):
        r = rng.fork("%s%d" % (tag, k))
        p = Project("%s%d" % (tag, k))
        p.dirs = ["/ws/proj/sub", "/ws/shared", "/ws/proj/deep/er"]
        src = r.choice(["/ws/proj/page.md.txtpp", "/ws/proj/deep/page.txtpp", "/ws/proj/deep/er/p.txtpp.md"])
        up = "../" * (len(src.split("/")) - 3)
        targets = [up + "shared/snippet.txt", "sub_local.tmp"] + (["sub/local.txt"] if src == "/ws/proj/page.md.txtpp" else []) + [up + "../ws/shared/roundabout.txt"]
        L = ["text"]
        for j, t in enumerate(r.shuffle(targets)[: 1 + r.below(len(targets))]):
            L += ["%sTXTPP#temp %s" % ("-=+~"[j % 4], t), "%sbody %d" % ("-=+~"[j % 4], j), ""]
        L += ["/TXTPP#include %sshared/keep.txt" % up, "end"]
        p.files = [(src, ("\n".join(L) + "\n").encode()), ("/ws/shared/keep.txt", b"kept\n"), ("/ws/other.txt", b"other\n")]
        p.srcs = [src]; p.deps = {src: []}
        p.base = r.choice(["/ws/proj", "/ws/proj", "/ws"]); p.inputs = ["."]; p.recursive = True
        p.sched = [0] * 8; p.stats = collections.Counter({"escaping-temp:project": 1})
        out.append(p)
    return out

def check_C07(tier_, sd, consts_ok, consts_detail):
    rng = Rng(sd).fork("C07"); violations = []
    n = 350 if tier_ == "quick" else 12000
    # sources may contain erroneous directives: clean must still succeed; build may fail (then only "never runs, removes only generated" is checked)
    projs = gen_batch(rng, n, modes=(0,), allow_errors=True, markers=True)
    for p in projs: p.inputs = ["."]; p.recursive = True
    projs += escaping_temp_projects(rng, 40 if tier_ == "quick" else 300, "esc")
    bi, bm = both(projs)
    cl = []
    for p, a in zip(projs, bi):
        q = follow(p, a, p.id + ".clean"); q.mode = 2; q.cmds = p.cmds; cl.append(q)
    # the outputs are deleted by hand after the build (or were never there): clean must still visit the temp directives
    nodel = []
    for p, a in list(zip(projs, bi))[: 200 if tier_ == "quick" else 5000]:
        if a["verdict"] != "ok": continue
        outs_ = {gen.out_name(s_) for s_ in p.srcs}
        if not any(k_ not in outs_ and k_ not in dict(p.files) and v_ is not None for k_, v_ in a["F"].items()): continue      # no temp file generated
        q = follow(p, a, p.id + ".noout"); q.mode = 2; q.cmds = p.cmds
        q.files = [(f_, c_) for f_, c_ in q.files if f_ not in outs_]
        nodel.append((p, q))
    ni_, nm_ = both([q for _, q in nodel], oracle=False)
    # clean in the presence of directives that cannot be honoured (a temp target that is a directory, a target below a missing
    # directory, a .txtpp target, a temp directive without arguments): it must still succeed and still remove what the LATER
    # temp directives and the output name (files lying there are planted)
    hard = []
    for k in range(40 if tier_ == "quick" else 400):
        r = rng.fork("hard%d" % k); p = Project("hard%d" % k)
        d = r.choice(["/", "/sub/"]); src = d + r.choice(["h.txt.txtpp", "h.v2.txtpp.md", "h.txtpp"])
        bad = r.shuffle(["adir", "missing/dir/t.out", "gen.txtpp", "gen.txtpp.md", ""])[: 1 + r.below(3)]
        L = ["top"]; planted = []
        for j, t in enumerate(bad + ["later%d.out" % k, "sub2/later.tmp"]):
            pre = "-=+~"[j % 4]
            L += ["%sTXTPP#temp %s" % (pre, t), "%sbody %d" % (pre, j), "mid %d" % j]
        p.dirs = [d.rstrip("/") + "/adir" if d != "/" else "/adir", (d.rstrip("/") if d != "/" else "") + "/sub2"]
        p.files = [(src, ("\n".join(L) + "\n").encode()), (d + "later%d.out" % k, b"old temp"), (d + "sub2/later.tmp", b"old temp 2"),
                   (gen.out_name(src), b"old output"), (d + "keep.txt", b"keep")]
        p.srcs = [src]; p.deps = {src: []}; p.inputs = ["."]; p.recursive = True; p.mode = 2; p.sched = [0] * 6
        p.stats = collections.Counter({"clean-hard:project": 1})
        hard.append(p)
    # names with TWO txtpp segments whose derived "output" is itself a source that really exists beside them: clean must not delete it
    dbl = []
    for k_, (odd_, victim) in enumerate([("notes.txtpp.txtpp.md", "notes.txtpp.md"), ("x.txtpp.md.txtpp", "x.txtpp.md"), ("foo.txtpp.txtpp", "foo.txtpp"), ("..txtpp.md", "../sub.md")]):
        q = Project("dbl%d" % k_); q.dirs = ["/sub"]
        q.files = [("/sub/" + odd_, b"odd\n"), ("/sub/" + victim if not victim.startswith("..") else "/sub.md", b"a real file that clean never generated\n"), ("/sub/plain.txt.txtpp", b"p\n"), ("/sub/plain.txt", b"p\n")]
        q.srcs = ["/sub/" + odd_]; q.inputs = ["sub"]; q.mode = 2; q.sched = [0] * 6
        dbl.append(q)
    bi_, bm_ = both(dbl, oracle=False)
    for q, c, m in zip(dbl, bi_, bm_):
        vict = q.files[1][0]
        if c["F"].get(vict) != q.files[1][1] and len(violations) < 5:
            violations.append(proj_violation("C07", "clean deleted or changed %s, a file it never generated (the derived output name of %s)" % (vict, q.files[0][0]), q, c, m))
        elif (c["verdict"], c["F"], c["U"]) != (m["verdict"], m["F"], m["U"]) and len(violations) < 5:
            violations.append(proj_violation("C07", "clean differs from the model (sources with two txtpp segments)", q, c, m, found=False))
    # text that LOOKS like a temp directive but is the content of a write / run / temp / empty block (the documented escape): clean must not
    # take it for a directive and delete the hand-written file it names; a temp directive directly after another directive is still cleaned
    look = []
    for k_, blk in enumerate(["write", "run printf '%s\\n'", "temp real%d.g", ""]):
        for form in ("-", " "):
            q = Project("look%d%s" % (k_, "p" if form == "-" else "s")); blk_ = blk % k_ if "%d" in blk else blk
            L = ["top", "-TXTPP#%s" % blk_, "%s// TXTPP#temp gen.py" % form, "%sTXTPP#temp notes.txt" % form, "%s x" % form, "", "=TXTPP#tag T", "+TXTPP#temp direct%d.tmp" % k_, "+d", "~TXTPP#temp second%d.tmp" % k_, "~s", "", "T end"]
            q.files = [("/manual.md.txtpp", ("\n".join(L) + "\n").encode()), ("/gen.py", b"hand written\n"), ("/notes.txt", b"my notes\n"),
                       ("/direct%d.tmp" % k_, b"d"), ("/second%d.tmp" % k_, b"s"), ("/manual.md", b"old output\n")] + ([("/real%d.g" % k_, b"old")] if "real" in blk_ else [])
            q.srcs = ["/manual.md.txtpp"]; q.inputs = ["."]; q.mode = 2; q.sched = [0] * 4
            look.append(q)
    ki, km = both(look, oracle=False)
    hi, hm = both(hard, oracle=False)
    ci, cm = both(cl, oracle=False)
    nrest = 0; nontriv = set()
    for p, q, a, c, m in zip(projs, cl, bi, ci, cm):
        init = dict(p.files)
        if c["verdict"] != "ok" and len(violations) < 5:
            violations.append(proj_violation("C07", "clean failed", q, c, m)); continue
        if c["M"] and len(violations) < 5:
            violations.append(proj_violation("C07", "clean executed a run command (marker files were written)", q, c, m)); continue
        after = {k: v for k, v in c["F"].items() if v is not None}
        if any(k.endswith(".txtpp") or ".txtpp." in k for k in init if k not in after) and len(violations) < 5:
            violations.append(proj_violation("C07", "clean deleted a .txtpp file", q, c, m)); continue
        # every non-generated file is byte-identical and untouched
        for k, v in init.items():
            if after.get(k) != v:
                if len(violations) < 5: violations.append(proj_violation("C07", "clean changed or removed the non-generated file %s" % k, q, c, m)); break
        if a["verdict"] == "ok":
            nrest += 1
            if after != init and len(violations) < 5:
                violations.append(proj_violation("C07", "build then clean did not restore the tree exactly: left over %s" % sorted(set(after) - set(init)), q, c, m))
            nontriv.add(tuple(sorted(set(k for k, v in a["F"].items() if v is not None) - set(init))))
        if (c["verdict"], c["F"], c["U"]) != (m["verdict"], m["F"], m["U"]) and len(violations) < 5:
            violations.append(proj_violation("C07", "clean differs from the model (tree or touched set)", q, c, m, found=False))
    look_ok = 0
    for q, c, m in zip(look, ki, km):
        after = {k_: v_ for k_, v_ in c["F"].items() if v_ is not None}
        gone = [f_ for f_ in ("/gen.py", "/notes.txt") if after.get(f_) != dict(q.files)[f_]]
        left = [f_ for f_ in after if f_.endswith(".tmp") or f_ == "/manual.md" or f_.endswith(".g")]
        if (c["verdict"] != "ok" or gone or left) and len(violations) < 5:
            violations.append(proj_violation("C07", "clean and directive look-alikes inside a block: verdict %s, hand-written files removed or changed %s, generated files left %s" % (c["verdict"], gone, left), q, c, m))
        elif (c["verdict"], c["F"], c["U"]) != (m["verdict"], m["F"], m["U"]) and len(violations) < 5:
            violations.append(proj_violation("C07", "clean differs from the model (tree or touched set)", q, c, m, found=False))
        else: look_ok += 1
    nodel_ok = 0
    for (p, q), c, m in zip(nodel, ni_, nm_):
        init = dict(p.files); after = {k_: v_ for k_, v_ in c["F"].items() if v_ is not None}
        left = sorted(set(after) - set(init))
        if (c["verdict"] != "ok" or left) and len(violations) < 5:
            violations.append(proj_violation("C07", "clean after the outputs were deleted by hand: verdict %s, generated files left behind %s" % (c["verdict"], left), q, c, m))
        elif (c["verdict"], c["F"], c["U"]) != (m["verdict"], m["F"], m["U"]) and len(violations) < 5:
            violations.append(proj_violation("C07", "clean differs from the model (tree or touched set)", q, c, m, found=False))
        else: nodel_ok += 1
    hard_ok = 0
    for p, c, m in zip(hard, hi, hm):
        after = {k: v for k, v in c["F"].items() if v is not None}
        left = [k for k in after if k.endswith(".out") or k.endswith(".tmp") or k == gen.out_name(p.srcs[0])]
        if (c["verdict"] != "ok" or left) and len(violations) < 5:
            violations.append(proj_violation("C07", "clean with unhonourable temp directives: verdict %s, generated files left behind %s" % (c["verdict"], left), p, c, m))
        elif (c["verdict"], c["F"], c["U"]) != (m["verdict"], m["F"], m["U"]) and len(violations) < 5:
            violations.append(proj_violation("C07", "clean differs from the model (tree or touched set)", p, c, m, found=False))
        else: hard_ok += 1
    cses = cli_session({"a.txt.txtpp": "x\n-TXTPP#run printf 'r\\n' >> ../marker_outside; printf 'y\\n'\n\n=TXTPP#temp a.tmp\n=t\n", "sub/b.md.txtpp": "b\n", "keep.txt": "k"},
                       [["-q", "-r"], ["-N", "clean", "-q", "-r"], ["-q", "-r"], ["--needed", "-n", "clean", "-q", "a.txt"], ["-N", "clean", "-q", "-r"], ["-N", "clean", "-q", "-r"]])
    c_ok = [cses[0][0] == 0 and "a.txt" in cses[0][1], cses[1][0] == 0 and sorted(cses[1][1]) == ["a.txt.txtpp", "keep.txt", "sub/b.md.txtpp"],
            cses[2][0] == 0, cses[3][0] == 0 and "a.txt" not in cses[3][1] and "a.tmp" not in cses[3][1] and "sub/b.md" in cses[3][1],
            cses[4][0] == 0 and sorted(cses[4][1]) == ["a.txt.txtpp", "keep.txt", "sub/b.md.txtpp"], cses[5][0] == 0 and sorted(cses[5][1]) == ["a.txt.txtpp", "keep.txt", "sub/b.md.txtpp"]]
    if not all(c_ok) and len(violations) < 6:
        violations.append({"found": True, "replay": {"property": "C07", "what": "`txtpp [flags] clean` did not remove exactly what build generated (or ran something: -N before the subcommand must not turn clean into a build)",
                           "steps": "build -r; -N clean -r; build -r; --needed -n clean a.txt; -N clean -r; -N clean -r (again)", "steps_ok": c_ok, "exits": [x[0] for x in cses], "trees": [sorted(x[1]) for x in cses]}})
    cov = {"evaluations": 2 * len(projs) + len(hard) + len(nodel) + len(look) + len(dbl) + len(cses), "distinct_nontrivial": len(nontriv), "double_txtpp_name_cases": len(dbl), "cli_clean_steps_ok": c_ok, "clean_with_unhonourable_temp_directives_ok": hard_ok, "clean_after_outputs_deleted_ok": nodel_ok, "clean_lookalike_blocks_ok": look_ok,
           "rule": "generated projects (erroneous directives included, counting commands with marker files; plus projects whose temp targets lie in sub-directories, parent directories and outside the base directory) are built, then cleaned with the same inputs (whole tree, recursive); "
                   "checked on the implementation: clean succeeds, writes no marker (runs nothing), deletes no .txtpp, leaves every non-generated file byte-identical, and after a successful build restores the tree exactly; "
                   "distinct_nontrivial = distinct sets of generated paths that clean had to remove",
           "successful_build_then_clean": nrest, "input_distribution": dist_of(projs),
           "samples": [sorted(set(bi[0]["F"]) - set(dict(projs[0].files)))]}
    xcheck(cov, violations, "C07", cl, cm)
    return {"coverage": cov, "violations": violations}

check_C07.needs_cli = True

JUNK = [b"", b"STALE TEXT\n", b"\xff\xfe\x00junk", "é".encode()[:1], b"x" * 300]

def prestates(rng, p, a, count):
    """variants of the initial tree with arbitrary regular files planted at the generated paths"""
    init = dict(p.files); gp = [k for k, v in a["F"].items() if v is not None and k not in init]
    out = []
    for v in range(count):
        q = p.copy(); q.id = "%s.pre%d" % (p.id, v); fm = dict(init); what = []
        for g in gp:
            k = rng.below(8)
            true = a["F"][g]
            if k == 0: continue
            if k == 1: fm[g] = true; what.append("exact")
            elif k == 2 and len(true) > 1:
                cut = 1 + rng.below(len(true) - 1); fm[g] = true[:cut]; what.append("prefix@%d" % cut)
            elif k == 3: fm[g] = true + b"more"; what.append("extended")
            else: fm[g] = JUNK[rng.below(len(JUNK))]; what.append("junk")
        q.files = sorted(fm.items()); q.what = what
        out.append(q)
    return out

def crash_histories(rng, n):
    """the real binary is killed (SIGKILL) at a random moment of a build; building again must give exactly the tree of an
    uninterrupted build. Supporting evidence for the crash clause (the theorems are stale_outputs_irrelevant / build_pass_ignores_old_output)."""
    import tempfile, signal
    bad = []; killed = 0; done_before_kill = 0
    d = tempfile.mkdtemp(prefix="vp-c08k-", dir=os.environ.get("VP_TMP", "/dev/shm"))
    try:
        def make(root, r):
            os.makedirs(os.path.join(root, "sub"))
            big = "".join("line %05d é %s\n" % (i, "x" * (i % 37)) for i in range(3000))
            open(os.path.join(root, "inc.txt"), "w").write(big)
            open(os.path.join(root, "a.txt.txtpp"), "w").write("head é\n-TXTPP#include sub/b.md\n=TXTPP#temp a.tmp\n=" + "é" * 50 + "\n\n-TXTPP#include inc.txt\n+TXTPP#run sleep 0.0%d; printf 'done\\n'\ntail\n" % r.below(9))
            open(os.path.join(root, "sub", "b.txtpp.md"), "w").write("b-top\n-TXTPP#include ../inc.txt\n=TXTPP#include c\nb-bot\n")
            open(os.path.join(root, "sub", "c.txtpp"), "w").write("c é\n-TXTPP#run sleep 0.0%d; printf 'c\\n'\n" % r.below(9) + "".join("c line %d\n" % i for i in range(2000)))
        def snap(root):
            out = {}
            for dp, dn, fn in os.walk(root):
                for f in fn:
                    q = os.path.join(dp, f); out[os.path.relpath(q, root)] = open(q, "rb").read()
            return out
        ref = os.path.join(d, "ref"); make(ref, Rng(1))
        rc = subprocess.run([CLI, "-q", "-r", "."], cwd=ref, stdout=subprocess.DEVNULL, stderr=subprocess.DEVNULL).returncode
        refsnap = snap(ref)
        for k in range(n):
            r = rng.fork("k%d" % k)
            root = os.path.join(d, "k%d" % k); make(root, Rng(1))
            p = subprocess.Popen([CLI, "-q", "-r", "-j", str(1 + r.below(4)), "."], cwd=root, stdout=subprocess.DEVNULL, stderr=subprocess.DEVNULL)
            time.sleep(r.below(60) / 1000.0)
            if p.poll() is None:
                p.send_signal(signal.SIGKILL); killed += 1
            else: done_before_kill += 1
            p.wait()
            rc2 = subprocess.run([CLI, "-q", "-r", "."] if k % 3 else [CLI, "-q", "-r", "-N", "."], cwd=root, stdout=subprocess.DEVNULL, stderr=subprocess.DEVNULL).returncode
            s2 = snap(root)
            if rc2 != rc or s2 != refsnap:
                diff = sorted(f for f in set(s2) | set(refsnap) if s2.get(f) != refsnap.get(f))
                bad.append({"kill_after_ms": "random", "rebuild_exit": rc2, "reference_exit": rc, "differing_files": diff[:5]})
            shutil.rmtree(root, ignore_errors=True)
    finally:
        shutil.rmtree(d, ignore_errors=True)
    return killed, done_before_kill, bad

def check_C08(tier_, sd, consts_ok, consts_detail):
    rng = Rng(sd).fork("C08")
    built, ngen = built_trees(rng, 200 if tier_ == "quick" else 5000, "C08", allow_errors=True)
    # also projects whose build FAILS: the verdict must not depend on leftovers either
    failing = gen_batch(rng.fork("f"), 80 if tier_ == "quick" else 600, modes=(0,), allow_errors=True)
    for p in failing: p.inputs = ["."]; p.recursive = True
    fi, fm_ = both(failing)
    # sources that read a generated plain file AFTER their first dependency directive (their own temp target, written further up or
    # further down, or a temp target of the dependency): whatever lies at those paths before the run must not matter
    late = []
    for k_ in range(24 if tier_ == "quick" else 300):
        r = rng.fork("late%d" % k_); q = Project("late%d" % k_)
        own_first = r.chance(1, 2)
        La = ["a top"] + (["-TXTPP#temp part%d.g" % k_, "-é own part", ""] if own_first else []) + ["/TXTPP#include b.txt"] + \
             ([] if own_first else ["-TXTPP#temp part%d.g" % k_, "-é own part", "-second line", ""]) + ["=TXTPP#include part%d.g" % k_] + (["+TXTPP#include bpart%d.g" % k_] if r.chance(1, 2) else []) + ["a end"]
        Lb = ["b top", "-TXTPP#temp bpart%d.g" % k_, "-from b é", "", "b end"]
        q.files = [("/a.txt.txtpp", ("\n".join(La) + "\n").encode()), ("/b.txt.txtpp", ("\n".join(Lb) + "\n").encode())]
        q.srcs = ["/a.txt.txtpp", "/b.txt.txtpp"]; q.deps = {"/a.txt.txtpp": ["/b.txt.txtpp"], "/b.txt.txtpp": []}
        q.inputs = ["."]; q.recursive = True; q.sched = [r.below(4) for _ in range(10)]; q.stats = collections.Counter({"late-read:project": 1})
        late.append(q)
    emptyo = []
    for k_ in range(6):
        q = Project("emptyout%d" % k_)
        q.files = [("/gen.txtpp", b"-TXTPP#temp data%d.txt\n-row\n" % k_), ("/blank.txtpp", b""), ("/stamp.txt.txtpp", b"TXTPP#after gen\n"), ("/bare.txtpp", b"-TXTPP#\n- note\n"),
                   ("/main.txt.txtpp", b"top\n-TXTPP#after gen\n=TXTPP#include data%d.txt\nend\n" % k_)]
        q.srcs = [f_ for f_, _ in q.files]; q.deps = {}; q.inputs = ["."]; q.recursive = True; q.sched = [(k_ + t) % 3 for t in range(10)]; q.stats = collections.Counter({"empty-output:project": 1})
        emptyo.append(q)
    eoi, eom = both(emptyo, oracle=False)
    li, lm = both(late, oracle=False)
    late = late + emptyo; li = li + eoi; lm = lm + eom
    # a source that is refused (its output would be a txtpp name / not beside it) must leave NOTHING behind, or the next build of the same
    # directory sees another tree: build three times, the tree after every build must be the same and contain no new source
    refused = []
    for k_, nm_ in enumerate(["notes.txtpp.txtpp", "n.txtpp.md.txtpp", "n.txtpp.txtpp.md", "..txtpp.md"]):
        q = Project("refused%d" % k_); q.dirs = ["/w/d"]
        q.files = [("/w/d/" + nm_, b"refused\n"), ("/w/d/ok.txt.txtpp", b"ok\n")] + ([("/w/d/ok.txt", b"stale")] if k_ % 2 else [])
        q.base = "/w"; q.inputs = ["d"]; q.recursive = True; q.sched = [k_ % 2, 0, 0, 0]
        refused.append(q)
    r1, r1m = both(refused, oracle=False)
    second = [follow(q, a, q.id + ".again") for q, a in zip(refused, r1)]
    for q2, q in zip(second, refused): q2.mode = 0; q2.sched = q.sched
    r2, r2m = both(second, oracle=False)
    refused_bad = []
    for q, a1, a2, b1 in zip(refused, r1, r2, r1m):
        init = set(f_ for f_, _ in q.files)
        made1 = sorted(f_ for f_, v_ in a1["F"].items() if v_ is not None and f_ not in init and f_ != "/w/d/ok.txt")
        if made1 or a1["verdict"] != a2["verdict"] or a1["F"] != a2["F"]:
            refused_bad.append(proj_violation("C08", "a refused source left files behind (%s) or building the same directory again gives another verdict/tree (%s then %s)" % (made1, a1["verdict"], a2["verdict"]), q, a1, b1))
        elif (a1["verdict"], a1["F"]) != (b1["verdict"], b1["F"]):
            refused_bad.append(proj_violation("C08", "refused source: differs from the model", q, a1, b1, found=False))
    base = built + [(p, a) for p, a in zip(failing, fi) if a["verdict"] == "err"] + [(p, a) for p, a, b in zip(late, li, lm) if a["verdict"] == "ok" and a["F"] == b["F"]]
    steps = []; meta = []
    for k, (p, a) in enumerate(base):
        r = rng.fork("s%d" % k)
        for q in prestates(r, p, a, 4 if tier_ == "quick" else 8):
            q.mode = r.choice([0, 0, 1]); q.sched = [r.below(6) for _ in range(30)]
            steps.append(q); meta.append(k)
        # building twice equals building once
        q = follow(p, a, p.id + ".again"); q.mode = 0; q.what = ["rebuild"]; steps.append(q); meta.append(k)
    oi, om = both(steps)
    violations = []; kinds = collections.Counter(); nontriv = set()
    for q, a, b, k in zip(steps, oi, om, meta):
        p, ref = base[k]
        kinds.update(q.what)
        if a["verdict"] != ref["verdict"]:
            if len(violations) < 5: violations.append(proj_violation("C08", "verdict depends on what was lying at the generated paths (%s): %s vs %s from a clean tree" % (q.what, a["verdict"], ref["verdict"]), q, a, b))
            continue
        if ref["verdict"] == "ok":
            if a["F"] != ref["F"] and len(violations) < 5:
                diffp = [x for x in set(a["F"]) | set(ref["F"]) if a["F"].get(x) != ref["F"].get(x)]
                violations.append(proj_violation("C08", "bytes after the build depend on the pre-state (%s) at %s" % (q.what, diffp), q, a, b))
            nontriv.add((k, tuple(q.what)))
        if (a["verdict"], a["F"] if a["verdict"] == "ok" else None) != (b["verdict"], b["F"] if b["verdict"] == "ok" else None) and len(violations) < 5:
            violations.append(proj_violation("C08", "differs from the model", q, a, b, found=False))
    violations += refused_bad[:3]
    killed, early, kbad = crash_histories(rng.fork("kill"), 25 if tier_ == "quick" else 400)
    for b in kbad[:3]:
        violations.append({"found": True, "replay": {"property": "C08", "what": "a build interrupted by SIGKILL was not repaired by building again", "detail": b,
                           "how": "tools/checks.py crash_histories: txtpp -q -r . killed after 0-60 ms, then txtpp -q -r . (or -N); tree compared with an uninterrupted build"}})
    # the binary, inputs named in every accepted way (seed C08-8: an input given by its OUTPUT name resolved the second source
    # spelling `stem.txtpp.ext` only when the output already existed): exit code and final tree must not depend on what lies at the output
    named_runs = 0
    nsrc = {"page.txtpp.md": "p1\n-TXTPP#run echo built\np2\n", "a.txt.txtpp": "a1\n", "sub/q.txtpp.rs": "q\n", "sub/b.md.txtpp": "b\n"}
    outs_ = ["page.md", "a.txt", "sub/q.rs", "sub/b.md"]
    pres = {"absent": None, "stale": b"OLD\n", "junk": b"\xff\xfe\x00", "exact-prefix": b"p1\n", "empty": b""}
    for inputs in (["page.md"], ["a.txt"], ["page.txtpp.md"], ["sub/q.rs", "sub/b.md"], ["page.md", "a.txt", "sub"], ["."], ["-r", "."]):
        for fl in ([], ["-N"]):
            seen = {}
            for pn, pv in pres.items():
                files = dict(nsrc)
                if pv is not None:
                    for o in outs_: files[o] = pv
                rc, tree, _ = cli_session(files, [["-q"] + fl + inputs], dirs=["sub"])[0]
                named_runs += 1
                seen[pn] = (rc, tuple(sorted((o, tree.get(o)) for o in outs_ if tree.get(o) is not None and tree.get(o) != pv)))
            ref_ = seen["absent"]
            for pn, v in seen.items():
                if v != ref_ and len(violations) < 5:
                    violations.append({"found": True, "replay": {"property": "C08", "what": "the binary's verdict / generated files for inputs %r (flags %r) depend on what lay at the output paths: pre-state %s vs absent" % (inputs, fl, pn),
                                       "files": nsrc, "prestate_bytes": repr(pres[pn]), "observed": repr(v)[:400], "from_absent": repr(ref_)[:400]}})
    cov = {"evaluations": len(steps) + ngen + len(failing) + len(late) + killed + early + named_runs, "distinct_nontrivial": len(nontriv),
           "sigkill_histories": {"killed_mid_build": killed, "finished_before_the_kill": early, "not_repaired": len(kbad)},
           "rule": "for generated projects (successful and failing) the build / needed-build is repeated from pre-states with, at every generated path independently: absent, exact content, a proper prefix cut at a random byte, extended content, "
                   "empty, stale text, non-UTF-8 bytes, half a multi-byte character, 300 bytes; and from the built tree itself; verdict and (on success) the whole tree must equal the build from the clean tree; "
                   "plus SIGKILL histories on the real binary (killed 0-60 ms into a build with 1-4 threads, then build or needed-build again, tree compared with an uninterrupted build); "
                   "distinct_nontrivial = distinct (project, pre-state shape)",
           "projects": len(base), "late_read_projects": len(late), "cli_named_input_runs": named_runs, "prestate_kinds": dict(kinds), "samples": [steps[0].what, steps[1].what]}
    xcheck(cov, violations, "C08", steps, om)
    return {"coverage": cov, "violations": violations}

def check_C09(tier_, sd, consts_ok, consts_detail):
    rng = Rng(sd).fork("C09")
    built, ngen = built_trees(rng, 220 if tier_ == "quick" else 4000, "C09")
    steps = []; meta = []
    for k, (p, a) in enumerate(built):
        r = rng.fork("s%d" % k)
        for q in prestates(r, p, a, 4 if tier_ == "quick" else 8):
            for mode in (1, r.choice([0, 3])):
                q2 = q.copy(); q2.id += ".m%d" % mode; q2.mode = mode; q2.what = q.what; q2.sched = [r.below(6) for _ in range(30)]
                steps.append(q2); meta.append(k)
        # source edit: a stale tree must be brought up to date by --needed
        q = follow(p, a, p.id + ".edit"); fm = dict(q.files); s = r.choice(p.srcs); fm[s] = fm[s] + b"edited tail line\n"; q.files = sorted(fm.items()); q.mode = 1; q.what = ["source-edit"]
        steps.append(q); meta.append(k)
    oi, om = both(steps)
    violations = []; nontriv = set(); untouched = 0; rewritten = 0
    for q, a, b, k in zip(steps, oi, om, meta):
        p, ref = built[k]
        pre = dict(q.files); init = dict(p.files)
        gp = [x for x in ref["F"] if ref["F"][x] is not None and x not in init]
        outs = {gen.out_name(s) for s in p.srcs}
        if q.what == ["source-edit"]:
            if a["verdict"] != b["verdict"] or (a["verdict"] == "ok" and a["F"] != b["F"]):
                if len(violations) < 5: violations.append(proj_violation("C09", "--needed after a source edit differs from the model", q, a, b, found=False))
            continue
        if q.mode == 1:
            if a["verdict"] != "ok" or a["F"] != ref["F"]:
                if len(violations) < 5: violations.append(proj_violation("C09", "--needed does not equal a normal build (pre-state %s)" % q.what, q, a, b))
                continue
            nontriv.add((k, tuple(q.what)))
        for g in gp:
            correct = pre.get(g) == ref["F"][g]
            is_out = g in outs
            # no mode rewrites a temp file whose content is already correct; --needed writes no output that is already correct
            if correct and (q.mode == 1 or not is_out) and a["verdict"] == "ok":
                if g in a["U"]:
                    if len(violations) < 5: violations.append(proj_violation("C09", "%s was already correct but was rewritten (mtime/inode changed) in mode %d" % (g, q.mode), q, a, b))
                else: untouched += 1
            elif not correct and q.mode in (0, 1) and a["verdict"] == "ok":
                rewritten += 1
                if a["F"].get(g) != ref["F"][g] and len(violations) < 5:
                    violations.append(proj_violation("C09", "stale %s was not brought up to date" % g, q, a, b))
        if (a["verdict"], a["U"]) != (b["verdict"], b["U"]) and a["verdict"] == "ok" and len(violations) < 5:
            violations.append(proj_violation("C09", "set of rewritten files differs from the model", q, a, b, found=False))
    # --needed succeeds exactly when a normal build succeeds: projects WITH erroneous sources (unused tags, bad directives, failing
    # commands, missing includes ...), same tree, both modes, and verify after a successful --needed build passes
    errp = [p_ for p_ in gen_batch(rng, 200 if tier_ == "quick" else 6000, large=False, modes=(0,), allow_errors=True)]
    e0, e1 = [], []
    for p_ in errp:
        for md, lst in ((0, e0), (1, e1)):
            q = p_.copy(); q.mode = md; q.id = p_.id + (".b" if md == 0 else ".n"); lst.append(q)
    ei, em = both(e0 + e1)
    nerr = 0
    for k_, p_ in enumerate(errp):
        ib, in_ = ei[k_], ei[len(errp) + k_]; mn = em[len(errp) + k_]
        if ib["verdict"] != "ok": nerr += 1
        if ib["verdict"] != in_["verdict"]:
            if len(violations) < 5:
                violations.append(proj_violation("C09", "a normal build ends with `%s` but --needed with `%s` on the same tree" % (ib["verdict"], in_["verdict"]), e1[k_], in_, mn))
        elif ib["verdict"] == "ok" and ib["F"] != in_["F"] and len(violations) < 5:
            violations.append(proj_violation("C09", "--needed and a normal build of the same tree give different files", e1[k_], in_, mn))
    # a file with TWO generated dependencies, on a tree without outputs (--needed writes an output only at the end of its task, so a
    # final pass started too early finds nothing to include): every completion order, --needed must succeed like a build and give its bytes
    two_ = []
    for order in (("c.txt", "b.txt"), ("b.txt", "c.txt")):
        for md in (1, 0):
            q = Project("twodeps%s%d" % (order[0][0], md)); q.mode = md
            q.files = [("/a.txt.txtpp", ("a top\n-TXTPP#include %s\n=TXTPP#include %s\na end\n" % order).encode()), ("/b.txt.txtpp", b"b text\n"), ("/c.txt.txtpp", b"c top\n-TXTPP#include b.txt\nc end\n")]
            q.inputs = ["."]; q.sched = []
            two_.append(q)
    truns = enumerate_schedules(two_, max_per=80)
    truns = truns + idle_variants(truns, 4)
    tmo = [parse_obs(x) for x in run_model([q.text() for (_, q, _) in truns])]
    tref = {}
    for (k_, q, a), b in zip(truns, tmo):
        tref.setdefault(k_ // 2, a)          # the --needed run with the all-zero schedule is the reference for both modes of that project
        if (a["verdict"] != "ok" or a["F"] != tref[k_ // 2]["F"]) and len(violations) < 5:
            violations.append(proj_violation("C09", "two dependencies, fresh tree, mode %s: under this completion order the run ends with `%s` / files differ from the other orders and from a normal build" % ("--needed" if q.mode else "build", a["verdict"]), q, a, b))
        elif (a["verdict"], a["T"], a["F"]) != (b["verdict"], b["T"], b["F"]) and len(violations) < 5:
            violations.append(proj_violation("C09", "two dependencies: trace/bytes differ from the model", q, a, b, found=False))
    ses = cli_session({"a.txt.txtpp": "x\n-TXTPP#temp t.tmp\n-body\ny\n"},
                      [["-q", "-N", "a.txt"], ["-q", "-N", "a.txt"], ["-q", "a.txt"], ["!write", "a.txt", b"stale"], ["-q", "--needed", "a.txt"], ["-q", "-N", "verify", "a.txt"]])
    m1, m2, m3 = ses[0][2], ses[1][2], ses[2][2]
    cli_ok = [ses[0][0] == 0 and ses[0][1].get("a.txt") == b"x\ny\n",
              ses[1][0] == 0 and m2.get("a.txt") == m1.get("a.txt") and m2.get("t.tmp") == m1.get("t.tmp"),       # -N again: nothing rewritten
              ses[2][0] == 0 and m3.get("a.txt") != m2.get("a.txt") and m3.get("t.tmp") == m2.get("t.tmp"),       # plain build rewrites the output, not the temp file
              ses[4][0] == 0 and ses[4][1].get("a.txt") == b"x\ny\n"]                                           # stale output brought up to date
    if not all(cli_ok) and len(violations) < 5:
        violations.append({"found": True, "replay": {"property": "C09", "what": "the binary's -N/--needed flag does not behave as documented", "steps_ok": cli_ok,
                           "steps": "-N; -N (mtimes must stay); build (output mtime changes, temp stays); tamper; --needed (updated)"}})
    script = b"#!/bin/sh\nMARK=custom; export MARK; exec sh \"$@\"\n"
    s1 = cli_session({"a.txt.txtpp": "x\n-TXTPP#run printf '%s\\n' \"$MARK\"\n\nlast\n", "mysh": script}, [["!chmod", "mysh"], ["-q", "-n", "-s", "./mysh -c", "a.txt"]])
    s2 = cli_session({"a.txt.txtpp": "x\n-TXTPP#run printf '%s\\n' \"$MARK\"\n\nlast\n", "mysh": script}, [["!chmod", "mysh"], ["-q", "-N", "-n", "-s", "./mysh -c", "a.txt"], ["-q", "-n", "-N", "-s", "./mysh -c", "a.txt"]])
    nn_ok = [s1[1][0] == 0 and b"custom" in (s1[1][1].get("a.txt") or b"") and not (s1[1][1].get("a.txt") or b"\n").endswith(b"\n"), s2[1][0] == 0 and s2[1][1].get("a.txt") == s1[1][1].get("a.txt"),
             s2[2][0] == 0 and s2[2][2].get("a.txt") == s2[1][2].get("a.txt")]
    if not all(nn_ok) and len(violations) < 5:
        violations.append({"found": True, "replay": {"property": "C09", "what": "`txtpp -N -n -s SHELL` does not give the bytes of `txtpp -n -s SHELL`, or rewrites an output that is already right",
                           "steps_ok": nn_ok, "normal": short(s1[1][1].get("a.txt")), "needed": short(s2[1][1].get("a.txt")), "exits": [s1[1][0], s2[1][0], s2[2][0]]}})
    cov = {"evaluations": len(steps) + ngen + len(ses) + 2 * len(errp) + 5, "distinct_nontrivial": len(nontriv), "cli_flag_steps_ok": cli_ok, "cli_needed_with_other_flags_ok": nn_ok,
           "build_vs_needed_pairs_with_errors": {"pairs": len(errp), "failing": nerr}, "two_dependency_schedules": len(truns),
           "rule": "generated projects x pre-states of the generated paths (absent / exact / prefix / extended / junk incl. non-UTF-8) x modes {needed, build, verify}; all mtimes pre-set to a sentinel; "
                   "checked on the implementation: needed = build byte for byte, correct outputs (needed) and correct temp files (all modes) keep inode and mtime, stale ones are updated; plus source edits; "
                   "distinct_nontrivial = distinct (project, pre-state shape) under --needed",
           "files_left_untouched": untouched, "files_rewritten": rewritten, "samples": [steps[0].what]}
    xcheck(cov, violations, "C09", steps, om)
    return {"coverage": cov, "violations": violations}

check_C09.needs_cli = True

DECOYS = [("/decoy.txt", b"decoy\n"), ("/a.txt.bak", b"bak\n"), ("/sub/txtpp", b"not a source\n"), ("/sub/notes.txtp", b"near miss\n"),
          ("/other/z.txtpp.d/keep", b"inside a dir named like a source\n"), ("/a_t0.tmp.orig", b"orig\n"), ("/.hidden", b"h\n")]

def check_C10(tier_, sd, consts_ok, consts_detail):
    rng = Rng(sd).fork("C10")
    n = 500 if tier_ == "quick" else 20000
    projs = gen_batch(rng, n, modes=(0, 1, 2, 3), allow_errors=True)
    esc = escaping_temp_projects(rng, 40 if tier_ == "quick" else 300, "esc")
    for k, p in enumerate(esc): p.mode = k % 4
    for p in projs:
        have = {f for f, _ in p.files}
        for f, c in DECOYS:
            if f not in have: p.files.append((f, c))
    for k, p in enumerate(projs):
        if k % 5 == 0 and p.srcs:
            fm = dict(p.files); s0 = p.srcs[0]; d = s0.rsplit("/", 1)[0]
            fm[d + "/helper.txtpp.md"] = b"hand-written source named by a temp directive\n"
            fm[s0] = fm[s0] + (b"" if fm[s0].endswith(b"\n") or not fm[s0] else b"\n") + b"~TXTPP#temp helper.txtpp.md\n~overwritten?\n\n"
            p.files = sorted(fm.items()); p.srcs = list(p.srcs) + [d + "/helper.txtpp.md"]     # it is a source itself
    # half of them start from a built tree so that verify / clean / needed have something to act on
    first = [p for k, p in enumerate(projs) if k % 2 == 0]
    pre = [p.copy() for p in first]
    for q in pre: q.mode = 0; q.id += ".pre"; q.inputs = ["."]; q.recursive = True
    pi, pm = both(pre)
    for p, a in zip(first, pi):
        p.files, p.dirs = tree_of(a)
    # the escaping-temp projects: half of them on a built tree
    epre = [p.copy() for p in esc[::2]]
    for q in epre: q.mode = 0; q.id += ".pre"
    ei, em = both(epre)
    for p, a in zip(esc[::2], ei): p.files, p.dirs = tree_of(a)
    projs = projs + esc
    oi, om = both(projs)
    violations = []; modes = collections.Counter(); nontriv = set()
    for p, a, b in zip(projs, oi, om):
        modes[(["build", "needed", "clean", "verify"][p.mode], a["verdict"])] += 1
        before = dict(p.files)
        srcs = set(p.srcs)
        allowed = {gen.out_name(s) for s in p.srcs} | {k for k in set(a["F"]) | set(before) if re.search(r"/[a-f]_t\d\.tmp$", k)} \
                  | {"/ws/shared/snippet.txt", "/ws/shared/roundabout.txt", "/ws/proj/sub/local.txt"} | {k for k in set(a["F"]) | set(before) if k.endswith("/sub_local.tmp")}
        for t in a["U"]:
            if t not in allowed:
                if len(violations) < 5: violations.append(proj_violation("C10", "txtpp created, modified or deleted %s, which is neither an output of a processed source nor a temp target" % t, p, a, b)); break
        for k, v in before.items():
            if k not in allowed and a["F"].get(k) != v:
                if len(violations) < 5: violations.append(proj_violation("C10", "the bytes of %s changed" % k, p, a, b)); break
        if p.mode == 2 and any(k not in before for k, v in a["F"].items() if v is not None) and len(violations) < 5:
            violations.append(proj_violation("C10", "clean created a file", p, a, b))
        if p.mode == 3 and any(t in {gen.out_name(s) for s in p.srcs} for t in a["U"]) and len(violations) < 5:
            violations.append(proj_violation("C10", "verify touched an output", p, a, b))
        if a["U"] != b["U"] and len(violations) < 5:
            violations.append(proj_violation("C10", "set of touched paths differs from the model: impl %s, model %s" % (a["U"], b["U"]), p, a, b, found=False))
        if a["U"]: nontriv.add((p.mode, tuple(a["U"])))
    # sources whose derived output is not a regular file beside them (a stem `.`: the name would land in the PARENT directory; an output
    # that is itself a txtpp name): refused in every mode, and the files such an output would hit are never touched
    odd = []
    for k_, nm_ in enumerate(["..txtpp.md", "..txtpp", "..txtpp.txtpp", "n.txtpp.txtpp", "n.txtpp.txtpp.md", "n.txtpp.md.txtpp"]):
        for md in (0, 1, 2, 3):
            q = Project("oddout%d_%d" % (k_, md)); q.dirs = ["/proj/docs"]
            q.files = [("/proj/docs/" + nm_, b"hello from the odd source\n"), ("/proj/docs/ok.txt.txtpp", b"ok\n"), ("/proj/docs.md", b"decoy beside the directory\n"), ("/proj/docs", None) if False else ("/proj/keep.txt", b"keep\n"),
                       ("/proj/docs/n.txtpp", b"a real source named like the odd output\n"), ("/proj/docs/n.txtpp.md", b"another real source\n"), ("/proj/docs/ok.txt", b"ok\n")]
            q.base = "/proj"; q.inputs = [["docs"], ["docs/" + nm_], ["."]][k_ % 3]; q.recursive = True; q.mode = md; q.sched = [(k_ + t) % 3 for t in range(8)]
            odd.append(q)
    di_, dm_ = both(odd, oracle=False)
    for q, a, b in zip(odd, di_, dm_):
        init = dict(q.files)
        hit = [f_ for f_ in ("/proj/docs.md", "/proj/keep.txt", "/proj/docs/n.txtpp", "/proj/docs/n.txtpp.md") if a["F"].get(f_) != init[f_] or f_ in a["U"]]
        new_ = sorted(f_ for f_, v_ in a["F"].items() if v_ is not None and f_ not in init and not f_.startswith("/proj/docs/n") )
        if (hit or [f_ for f_ in new_ if not f_.startswith("/proj/docs/")]) and len(violations) < 5:
            violations.append(proj_violation("C10", "a source whose output would not be a file beside it: files outside its footprint were touched or created: %s %s" % (hit, new_), q, a, b))
        elif (a["verdict"], a["F"], a["U"]) != (b["verdict"], b["F"], b["U"]) and len(violations) < 5:
            violations.append(proj_violation("C10", "odd source names: verdict / tree / touched set differ from the model", q, a, b, found=False))
    sib = []
    for k_, inp in enumerate([["report.v2.md"], ["index.md"], ["report.v2.md", "index.md"]]):
        for md in (0, 2, 1, 3):
            q = Project("sibling%d_%d" % (k_, md)); q.mode = md
            q.files = [("/report.v2.txtpp.md", b"v2\n-TXTPP#temp report.v2.gen.txt\n-g2\n"), ("/report.txtpp.md", b"plain report\n-TXTPP#temp report.gen.txt\n-g\n"), ("/index.md.txtpp", b"idx\n-TXTPP#include report.v2.md\n"),
                       ("/report.md", b"decoy: output of the sibling, not selected\n"), ("/report.gen.txt", b"decoy temp of the sibling\n"), ("/report.v2.md", b"v2\n"), ("/report.v2.gen.txt", b"g2")]
            q.inputs = inp; q.sched = [(k_ + t) % 3 for t in range(8)]; sib.append(q)
    bi3, bm3 = both(sib, oracle=False)
    for q, a, b in zip(sib, bi3, bm3):
        init = dict(q.files)
        hit = [f_ for f_ in ("/report.md", "/report.gen.txt", "/report.txtpp.md") if a["F"].get(f_) != init[f_] or f_ in a["U"]]
        if hit and len(violations) < 5:
            violations.append(proj_violation("C10", "files of a source that was neither selected nor a dependency were touched: %s (inputs %s)" % (hit, q.inputs), q, a, b))
        elif (a["verdict"], a["F"], a["U"]) != (b["verdict"], b["F"], b["U"]) and len(violations) < 5:
            violations.append(proj_violation("C10", "dotted stem beside a sibling: verdict / tree / touched set differ from the model", q, a, b, found=False))
    # the binary: a subcommand fixes the mode whatever top-level flags precede it (verify and clean never write), and the decoys stay
    src = {"a.txt.txtpp": "x\n-TXTPP#temp t.tmp\n-body\ny\n", "a.txt": "stale", "keep.md": "decoy", "sub/b.txtpp": "b\n", "sub/b": "old b"}
    ses = cli_session(src, [["-N", "-q", "verify", "-q", "a.txt"], ["-N", "verify", "-q", "-r"], ["-N", "-n", "clean", "-q", "sub"], ["-N", "clean", "-q", "-r"], ["-N", "verify", "-q", "-r"]])
    t0 = {k: (v if isinstance(v, bytes) else v.encode()) for k, v in src.items()}
    def untouched(step, names_): return all(ses[step][1].get(n_) == t0[n_] and ses[step][2].get(n_) == 946684800 * 10**9 for n_ in names_)
    cli_ok = [ses[0][0] == 1 and untouched(0, ["a.txt", "keep.md", "sub/b", "a.txt.txtpp"]),
              ses[1][0] == 1 and untouched(1, ["a.txt", "keep.md", "sub/b"]),
              ses[2][0] == 0 and "sub/b" not in ses[2][1] and untouched(2, ["a.txt", "keep.md", "sub/b.txtpp"]) and "t.tmp" not in ses[2][1],
              ses[3][0] == 0 and sorted(ses[3][1]) == ["a.txt.txtpp", "keep.md", "sub/b.txtpp"],
              ses[4][0] == 1 and sorted(ses[4][1]) == ["a.txt.txtpp", "keep.md", "sub/b.txtpp"]]
    if not all(cli_ok) and len(violations) < 6:
        violations.append({"found": True, "replay": {"property": "C10", "what": "the binary wrote or removed something a verify/clean subcommand must not touch (top-level -N/-n before the subcommand)",
                           "steps": "-N -q verify a.txt (stale: exit 1, nothing touched); -N verify -r; -N -n clean sub (removes sub/b only); -N clean -r (removes a.txt, creates nothing); -N verify -r (missing outputs: exit 1, creates nothing)",
                           "steps_ok": cli_ok, "exits": [x[0] for x in ses], "trees": [sorted(x[1]) for x in ses]}})
    cov = {"evaluations": len(projs) + len(pre) + len(ses) + len(odd), "distinct_nontrivial": len(nontriv), "cli_subcommand_steps_ok": cli_ok, "odd_output_name_runs": len(odd), "dotted_stem_sibling_runs": len(sib),
           "rule": "generated projects (successful and failing) x modes {build, needed, clean, verify} x input selections x recursive flag, half of them on an already built tree, with decoy files next to sources, in sub-directories and at near-miss names; "
                   "full-tree snapshot (bytes, inode, mtime) before/after: every touched path must be an output of a source of the project or a temp target, every other file keeps its bytes; clean creates nothing; verify touches no output; "
                   "the touched set must equal the model's event log; distinct_nontrivial = distinct (mode, touched set)",
           "mode_verdict_distribution": {"%s/%s" % k: v for k, v in modes.items()}, "decoys": [d for d, _ in DECOYS],
           "samples": [{"mode": projs[3].mode, "touched": oi[3]["U"]}]}
    xcheck(cov, violations, "C10", projs, om)
    return {"coverage": cov, "violations": violations}

check_C10.needs_cli = True

# ------------------------------------------------------------------ C11 inputs and names
# q.txt.txtpp and q.txtpp.txt are two DIFFERENT sources that happen to share the output name q.txt: both must be processed
# (which one writes last is decided by the controlled schedule, identically in the model)
C11_NAMES = ["a.txtpp", "b.txt.txtpp", "c.txtpp.md", "plain.txt", "txtpp", ".txtpp", "e.txtpp.b.c", "my.file.txtpp.md", "x.y.txtpp", "f.txtp", "g.txtpp.bak.old",
             "q.txt.txtpp", "q.txtpp.txt"]

def check_C11(tier_, sd, consts_ok, consts_detail):
    rng = Rng(sd).fork("C11")
    # (1) the name functions, exhaustively over short token strings
    toks = ["a", "b", ".", "txtpp", "txt", "é"]
    names = []
    for n in range(1, 6 if tier_ == "quick" else 7):
        for combo in itertools.product(toks, repeat=n):
            s = "".join(combo)
            # D7: ordinary names. The raw Rust function `remove_txtpp` is compared here; for a name whose stem is `.`/`..` it leaves the
            # directory, and IOCtx::new refuses the source afterwards (F8) - the model's remove_txtpp includes that refusal, so these
            # names are compared at the level of whole runs below, not function by function
            if s in (".", "..") or "/" in s or s.startswith(".."): continue
            names.append(s)
    names = sorted(set(names))
    ncases = ["N " + hx(x) for x in names]
    ni = run_impl(ncases); nm = run_model(ncases)
    nbad = diff_cases(ncases, ni, nm)
    # documented shapes, checked on the implementation directly
    shape_bad = []
    for foo in ["foo", "a", "é"]:
        for ext in ["ext", "md", "c"]:
            for (src, exp) in [("%s.%s.txtpp" % (foo, ext), "%s.%s" % (foo, ext)), ("%s.txtpp.%s" % (foo, ext), "%s.%s" % (foo, ext)), ("%s.txtpp" % foo, foo)]:
                o = run_impl(["N " + hx(src)])[0].split(" ")
                if o[1] != "true" or o[2] == "-" or unhx(o[2]).decode() != exp: shape_bad.append((src, exp, o))
    # (2) trees and input lists
    n = 500 if tier_ == "quick" else 20000
    projs = []
    for k in range(n):
        r = rng.fork("t%d" % k)
        p = Project("in%d" % k)
        dirs = ["/", "/sub", "/sub/deep", "/d.txtpp"]      # a directory named like a source
        placed = []
        for d in dirs:
            for nm_ in C11_NAMES:
                if r.chance(1, 4) or (nm_.startswith("q.") and d == "/" and k % 3 == 0):
                    path = (d.rstrip("/") + "/" + nm_)
                    p.files.append((path, ("content of %s\n" % path).encode())); placed.append(path)
        if k % 9 == 4:
            # a source whose stem is `.`: removing the extensions leaves no file name beside the source; it must be refused with nothing
            # written anywhere (fix F8; Path.remove_txtpp answers None: props/C11 dot_stem_sources_are_refused_before_anything_is_written)
            path = r.choice(["/sub/deep/", "/sub/", "/"]) + r.choice(["..txtpp.md", "..txtpp", "..txtpp.txtpp", "..txtpp."])
            p.files.append((path, b"dot stem\n")); placed.append(path)
            p.files.append(("/deep.md", b"must stay\n")); p.files.append(("/sub.md", b"must stay\n"))
        p.dirs = ["/sub", "/sub/deep", "/d.txtpp", "/emptydir"]
        p.base = r.choice(["/", "/", "/sub"])
        p.recursive = r.chance(1, 2)
        cands = [".", "sub", "sub/deep", "./sub/../sub", "d.txtpp", "emptydir", "missing.txt", "missing.txtpp", "plain.txt", "nosuchdir/x.txtpp"]
        for f in placed:
            rel = f.lstrip("/")
            if p.base == "/sub":
                rel = rel[4:] if rel.startswith("sub/") else "../" + rel
            cands += [rel, "./" + rel]
            if ".txtpp" in f:
                o = run_model_name(f)
                if o: cands.append((o.lstrip("/") if p.base == "/" else (o.lstrip("/")[4:] if o.startswith("/sub/") else "../" + o.lstrip("/"))))
        p.inputs = [r.choice(cands) for _ in range(1 + r.below(4))]
        if k % 4 == 1:
            # the same file named several ways is processed once in EVERY mode: clean (no dependency pass), verify, --needed
            p.mode = [2, 2, 3, 1][(k // 4) % 4]
            f0 = r.choice([f for f in placed if f.endswith(".txtpp") or ".txtpp." in f] or placed)
            rel0 = f0.lstrip("/") if p.base == "/" else (f0.lstrip("/")[4:] if f0.startswith("/sub/") else "../" + f0.lstrip("/"))
            p.inputs = p.inputs + [rel0, "./" + rel0, rel0]
        p.sched = [r.below(6) for _ in range(40)]
        projs.append(p)
    oi, om = both(projs, oracle=False)
    violations = []; verd = collections.Counter(); nontriv = set()
    for p, a, b in zip(projs, oi, om):
        verd[a["verdict"]] += 1
        init = dict(p.files)
        made = sorted(k for k, v in a["F"].items() if v is not None and k not in init)
        if (a["verdict"], a["F"], sorted(trace_list(a))) != (b["verdict"], b["F"], sorted(trace_list(b))) and len(violations) < 5:
            violations.append(proj_violation("C11", "the set of processed sources (task trace) / the names of the outputs / the verdict differ from the specification (Run.resolve_inputs, scan_dir, Path.remove_txtpp)", p, a, b))
        if made: nontriv.add((tuple(p.inputs), tuple(made)))
    cv, ncv = chain3_violations("C11", "every required source is processed to completion")
    violations += cv[: max(0, 6 - len(violations))]
    for kk in nbad[:5]:
        violations.append({"found": True, "replay": {"property": "C11", "what": "is_txtpp_file / remove_txtpp differ from the specification (props/C11.v)", "case": ncases[kk],
                           "name": names[kk], "implementation": ni[kk], "model(spec)": nm[kk]}})
    for sb in shape_bad[:3]:
        violations.append({"found": True, "replay": {"property": "C11", "what": "documented output name shape violated", "source": sb[0], "expected_output": sb[1], "implementation": sb[2]}})
    # the binary: -r / --recursive for build, verify and clean; default input `.`; output names as inputs
    tree = {"top.txtpp": "t\n", "sub/s.txt.txtpp": "s\n", "sub/deep/d.txtpp.md": "d\n"}
    ses = cli_session(tree, [["-q"], ["-q", "-r"], ["-q", "verify", "-r"], ["-q", "clean"], ["-q", "verify", "-r"], ["-q", "clean", "-r"], ["-q", "sub"], ["-q", "sub/deep/d.md", "top"]])
    def outs(t): return sorted(k for k in t if ".txtpp" not in k)
    want = [["top"], ["sub/deep/d.md", "sub/s.txt", "top"], None, ["sub/deep/d.md", "sub/s.txt"], None, [], ["sub/s.txt"], ["sub/deep/d.md", "sub/s.txt", "top"]]
    wrc = [0, 0, 0, 0, 1, 0, 0, 0]
    cli_ok = []
    for k, ((rc, t, _), w, e) in enumerate(zip(ses, want, wrc)):
        ok = rc == e and (w is None or outs(t) == w)
        cli_ok.append(ok)
        if not ok and len(violations) < 6:
            violations.append({"found": True, "replay": {"property": "C11", "what": "the binary processed the wrong set of sources for its flags (step %d)" % k,
                               "steps": "txtpp; txtpp -r; verify -r; clean; verify -r; clean -r; txtpp sub; txtpp sub/deep/d.md top", "exit": rc, "expected_exit": e,
                               "outputs_present": outs(t), "expected_outputs": w}})
    cov = {"evaluations": len(ncases) + len(projs) + len(ses), "distinct_nontrivial": len(nontriv) + len(set(nm)), "cli_flag_steps_ok": cli_ok,
           "rule": "(1) every name of <= %d tokens over {a, b, ., txtpp, txt, é} through is_txtpp_file / remove_txtpp (exhaustive); the three documented shapes on the implementation; "
                   "(2) random trees (names incl. txtpp, .txtpp, dotted stems, near misses, a directory named d.txtpp, an empty directory) x input lists (directories, source names, output names, ./ and ../ forms, duplicates, missing targets) "
                   "x recursion on/off x base directory = root or a sub-directory: verdict and exactly which outputs exist afterwards; distinct_nontrivial = distinct (inputs, outputs produced) + distinct name observations" % (5 if tier_ == "quick" else 6),
           "exhaustive": True, "exhaustive_bound": "name functions: names of <= %d tokens" % (5 if tier_ == "quick" else 6),
           "name_cases": len(ncases), "tree_cases": len(projs), "verdicts": dict(verd),
           "samples": [{"inputs": projs[2].inputs, "base": projs[2].base, "recursive": projs[2].recursive, "outputs": sorted(k for k, v in oi[2]["F"].items() if v is not None and k not in dict(projs[2].files))}]}
    xcheck(cov, violations, "C11", projs, om)
    return {"coverage": cov, "violations": violations}

check_C11.needs_cli = True

_NAME_CACHE = {}
def run_model_name(path):
    """output path of a source path according to the model (None if not a source)"""
    if path not in _NAME_CACHE:
        o = run_model(["N " + hx(path.lstrip("/"))])[0].split(" ")
        _NAME_CACHE[path] = None if o[2] == "-" else "/" + unhx(o[2]).decode()
    return _NAME_CACHE[path]



# ------------------------------------------------------------------ a chain of three generated files under every completion order
def chain3_violations(pid, what):
    """top includes mid.txt (captured by a tag), mid runs a multi-line command and then includes leaf.txt, leaf is plain; whole directory
    and single-file inputs; EVERY completion order through the scheduling hooks (with and without idle polls): outputs must be the
    one-file-at-a-time result and equal the model's"""
    files = [("/d/top.txt.txtpp", b"top start\n-TXTPP#tag MID\n=TXTPP#include mid.txt\n[MID]\ntop end\n"),
             ("/d/mid.txt.txtpp", b"// TXTPP#run printf 'mid-header\\n'\n//   \nTXTPP#include leaf.txt\nmid end\n"),
             ("/d/leaf.txt.txtpp", b"-TXTPP#tag L\n=TXTPP#write CCC\nleaf L\n")]
    projs = []
    for k_, (inp, rec) in enumerate([(["d"], False), (["d/top.txt"], False), (["d/mid.txt", "d/top.txt.txtpp", "d/leaf.txt"], False), (["."], True)]):
        q = Project("chain%d" % k_); q.files = list(files); q.inputs = inp; q.recursive = rec; q.sched = []
        projs.append(q)
    complete_oracles(projs)
    runs = enumerate_schedules(projs, max_per=60)
    runs = runs + idle_variants(runs, 3)
    mouts = [parse_obs(x) for x in run_model([q.text() for (_, q, _) in runs])]
    out = []; ref = {}
    for (k, q, a), b in zip(runs, mouts):
        if k not in ref: ref[k] = a           # the first run of a project (the all-zero schedule) is the reference: every other order must agree with it
        r0 = ref[k]
        if (a["verdict"] != "ok" or a["F"] != r0["F"]) and len(out) < 3:
            out.append(proj_violation(pid, "%s: a chain of three generated files (top <- mid <- leaf): under this completion order the run ends with `%s`%s / files %s differ from what another order gives"
                                      % (what, a["verdict"], " (reported as a circular dependency)" if a["K"] == "cyc" else "", sorted(o_ for o_ in set(a["F"]) | set(r0["F"]) if a["F"].get(o_) != r0["F"].get(o_))), q, a, b))
        elif (a["verdict"], a["T"], a["F"]) != (b["verdict"], b["T"], b["F"]) and len(out) < 3:
            out.append(proj_violation(pid, "%s: chain of three generated files: trace/bytes differ from the model" % what, q, a, b, found=False))
    return out, len(runs)

# ------------------------------------------------------------------ the real binary (flag mapping of main.rs)
def cli_session(files, steps, dirs=()):
    """materialise `files` in a scratch directory, run the txtpp binary once per step (a list of argument lists), and return
    after each step (exit code, {relative path: bytes}, {relative path: mtime_ns})"""
    import tempfile
    d = tempfile.mkdtemp(prefix="vp-cli-", dir=os.environ.get("VP_TMP", "/dev/shm"))
    out = []
    try:
        for x in dirs: os.makedirs(os.path.join(d, x), exist_ok=True)
        for f, c in files.items():
            os.makedirs(os.path.dirname(os.path.join(d, f)) or d, exist_ok=True)
            open(os.path.join(d, f), "wb").write(c if isinstance(c, bytes) else c.encode())
        for root, _, fs_ in os.walk(d):
            for f in fs_: os.utime(os.path.join(root, f), ns=(946684800 * 10**9, 946684800 * 10**9))
        env = {k: v for k, v in os.environ.items() if k != "TXTPP_FILE"}
        for args in steps:
            if args and args[0] == "!chmod":
                os.chmod(os.path.join(d, args[1]), 0o755); out.append((0, {}, {})); continue
            if args and args[0] == "!write":
                open(os.path.join(d, args[1]), "wb").write(args[2]); out.append((0, {}, {})); continue
            try: rc = subprocess.run([CLI] + list(args), cwd=d, env=env, stdout=subprocess.DEVNULL, stderr=subprocess.DEVNULL, timeout=60).returncode
            except subprocess.TimeoutExpired: rc = "timeout"
            tree, mt = {}, {}
            for root, _, fs_ in os.walk(d):
                for f in fs_:
                    q = os.path.join(root, f); rel = os.path.relpath(q, d)
                    tree[rel] = open(q, "rb").read(); mt[rel] = os.stat(q).st_mtime_ns
            out.append((rc, tree, mt))
    finally:
        shutil.rmtree(d, ignore_errors=True)
    return out

# ------------------------------------------------------------------ C17 run contract
def norm_join(base_dir, rel):
    parts = [x for x in base_dir.split("/") if x]
    for c in rel.split("/"):
        if c in ("", "."): continue
        if c == "..":
            if parts: parts.pop()
        else: parts.append(c)
    return "/" + "/".join(parts)

def check_C17(tier_, sd, consts_ok, consts_detail):
    rng = Rng(sd).fork("C17")
    projs = []; meta = []
    depths = ["/r.txt.txtpp", "/sub/r.txt.txtpp", "/sub/deep/r.txtpp", "/sub/deep/er/r.txtpp.md", "/sub-docs/api/r.txt.txtpp"]
    k = 0
    for src in depths:
        for base in ["/", "/sub", "/sub/deep", "/other"]:
            for cwd in [None, "/", "/decoy", "/sub"]:
                for variant in range(3 if tier_ == "quick" else 8):
                    r = rng.fork("c%d" % k); k += 1
                    p = Project("rc%d" % k)
                    status_fail = (variant == 2)
                    body = ["-TXTPP#run pwd -P", '=TXTPP#run printf %s "$TXTPP_FILE"', "",
                            "+TXTPP#run printf '%s|' \"a", "+b   c", "+d\"", "",
                            "-TXTPP#run printf '[%s]' \"left", "-", "-right\"", "",       # an EMPTY argument line still contributes its separating space
                            "~TXTPP#run printf 'multi'", "~  ;  printf 'line'", ""]
                    if status_fail: body += [r.choice(["-TXTPP#run exit %d" % (1 + r.below(3)), "-TXTPP#run echo partial; kill -9 $$", "-TXTPP#run kill -TERM $$; echo late"])]
                    p.files = [(src, ("\n".join(body) + "\n").encode())]
                    # decoy directories with the same relative names under the process cwd
                    p.dirs = ["/decoy/sub/deep/er", "/decoy/deep/er", "/decoy/er", "/other", "/sub/deep/er",
                              "/sh", "/decoy/sh", "/sub/sh", "/sub/deep/sh", "/sub-docs/api"]      # entries called `sh` in the process cwd / source directory: the shell comes from PATH
                    p.base = base; p.cwd = cwd
                    sd_ = src.rsplit("/", 1)[0] or "/"
                    # the input is named relative to the base directory
                    bparts = [x for x in base.split("/") if x]; sparts = [x for x in src.split("/") if x]
                    i = 0
                    while i < len(bparts) and i < len(sparts) - 1 and bparts[i] == sparts[i]: i += 1
                    p.inputs = ["/".join([".."] * (len(bparts) - i) + sparts[i:])]
                    p.sched = [0] * 6
                    projs.append(p); meta.append((src, base, cwd, status_fail))
    dupd = []
    for k_, inp in enumerate([[".", "sub"], ["sub", "sub"], [".", "."], ["sub", ".", "sub/deep"]]):
        for md in (0, 3):
            q = Project("dupdir%d_%d" % (k_, md)); q.dirs = ["/sub/deep"]
            q.files = [("/fast.txt.txtpp", b"fast\n"), ("/sub/slow.txt.txtpp", b"-TXTPP#run printf 'partial\\n'; exit 3\n\nend\n"), ("/sub/deep/x.txtpp", b"x\n"),
                       ("/fast.txt", b"fast\n"), ("/sub/slow.txt", b"partial\nend\n"), ("/sub/deep/x", b"x\n")]
            q.inputs = inp; q.recursive = True; q.mode = md; q.idle = True; q.sched = [(k_ + 2 * t) % 4 for t in range(14)]
            dupd.append(q)
    ui_, um_ = both(dupd)
    oi, om = both(projs)
    violations = []; known = collections.Counter(); nontriv = set(); ok_file = 0
    for q, a, b in zip(dupd, ui_, um_):
        if a["verdict"] != "err" and len(violations) < 5:
            violations.append(proj_violation("C17", "a command with a non-zero exit status did not fail the run (directories named several times, mode %s)" % ("verify" if q.mode == 3 else "build"), q, a, b))
    for p, a, b, (src, base, cwd, fail) in zip(projs, oi, om, meta):
        out = gen.out_name(src)
        srcdir = src.rsplit("/", 1)[0] or "/"
        if fail:
            if a["verdict"] != "err" and len(violations) < 5:
                violations.append(proj_violation("C17", "a command with a non-zero exit status did not fail the build", p, a, b))
            continue
        if a["verdict"] != "ok":
            if len(violations) < 5: violations.append(proj_violation("C17", "run directives failed (working directory not found?)", p, a, b))
            continue
        text = (a["F"].get(out) or b"").decode("utf-8", "replace")
        lines_ = text.split("\n")
        # line 0: pwd -P ; line 1: TXTPP_FILE (no newline, joined with the empty line) ; then 'a b   c d|' (one argument, single spaces) ; then 'multiline'
        want_pwd = "@R@" + ("" if srcdir == "/" else srcdir)
        if lines_[0] != want_pwd:
            if len(violations) < 5: violations.append(proj_violation("C17", "the command did not run in the directory of the source: pwd = %r, expected %r" % (lines_[0], want_pwd), p, a, b))
            continue
        tf = lines_[1]
        if "a b   c d|" not in text or "multi ; printf 'line'" in text or "multiline" not in text or "[left  right]" not in text:
            if len(violations) < 5: violations.append(proj_violation("C17", "argument lines were not joined by single spaces into one shell argument", p, a, b)); continue
        # TXTPP_FILE designates the source: absolute, or relative to the command's working directory
        if tf == "":
            if len(violations) < 5: violations.append(proj_violation("C17", "TXTPP_FILE is empty in the child", p, a, b)); continue
        designated = (tf[3:] or "/") if tf.startswith("@R@") else norm_join(srcdir, tf)
        nested = (srcdir != base) and (src.startswith(base.rstrip("/") + "/"))
        if designated != src:
            if nested:
                known["TXTPP_FILE=%s from cwd %s" % (tf, srcdir)] += 1     # known finding: class txtpp_file_nested
            elif len(violations) < 5:
                violations.append(proj_violation("C17", "TXTPP_FILE (%r) does not designate the source %s from the command's directory" % (tf, src), p, a, b))
        else: ok_file += 1
        if (a["verdict"], a["F"]) != (b["verdict"], b["F"]) and len(violations) < 5:
            violations.append(proj_violation("C17", "outputs differ from the model (Pp.exec_directive DRun: cwd = parent of the source, TXTPP_FILE = display path)", p, a, b, found=False))
        nontriv.add((src, base, cwd))
    # the binary refuses to start when TXTPP_FILE is set, so commands cannot recurse into txtpp
    cli = []
    import tempfile
    d = tempfile.mkdtemp(prefix="vp-c17-", dir=os.environ.get("VP_TMP", "/dev/shm"))
    try:
        open(os.path.join(d, "a.txt.txtpp"), "w").write("x\n-TXTPP#run %s -q b.txt\n\n" % CLI)
        open(os.path.join(d, "b.txt.txtpp"), "w").write("b\n")
        r1 = subprocess.run([CLI, "-q", "b.txt"], cwd=d, env=dict(os.environ, TXTPP_FILE="something"), stdout=subprocess.DEVNULL, stderr=subprocess.DEVNULL)
        made1 = os.path.exists(os.path.join(d, "b.txt"))
        r2 = subprocess.run([CLI, "-q", "b.txt"], cwd=d, env=dict(os.environ, TXTPP_FILE=""), stdout=subprocess.DEVNULL, stderr=subprocess.DEVNULL)
        made2 = os.path.exists(os.path.join(d, "b.txt"))
        os.remove(os.path.join(d, "b.txt")) if made2 else None
        r3 = subprocess.run([CLI, "-q", "a.txt"], cwd=d, env={k: v for k, v in os.environ.items() if k != "TXTPP_FILE"}, stdout=subprocess.DEVNULL, stderr=subprocess.DEVNULL)
        made3 = os.path.exists(os.path.join(d, "b.txt"))
        cli = [r1.returncode, made1, r2.returncode, made2, r3.returncode, made3]
        if not (r1.returncode == 1 and not made1):
            violations.append({"found": True, "replay": {"property": "C17", "what": "the binary started although TXTPP_FILE was set", "exit": r1.returncode, "output_created": made1,
                               "how": "TXTPP_FILE=something txtpp -q b.txt in a directory with b.txt.txtpp"}})
        if not (r2.returncode == 0 and made2):
            violations.append({"found": True, "replay": {"property": "C17", "what": "the binary refused to run with an EMPTY TXTPP_FILE", "exit": r2.returncode}})
        if not (r3.returncode != 0 and not made3):
            violations.append({"found": True, "replay": {"property": "C17", "what": "a run directive could recurse into txtpp", "exit": r3.returncode, "inner_output_created": made3}})
    finally:
        shutil.rmtree(d, ignore_errors=True)
    # the configured shell (-s): its arguments come first and in order, the joined command is ONE final argument, the working
    # directory is the source's directory; an unresolvable shell fails the run before anything is written
    script = b"#!/bin/sh\nfor a in \"$@\"; do printf '%s|' \"$a\"; done; printf 'D=%s' \"$(basename \"$(pwd -P)\")\"\n"
    srcs = {"sub/a.txt.txtpp": "-TXTPP#run hello  world 'x'\n-   and more\n\nafter\n", "myshell": script}
    ses = cli_session(srcs, [["!chmod", "myshell"], ["-q", "-s", "./myshell A  B", "sub/a.txt"], ["-q", "verify", "-s", "./myshell A B", "sub/a.txt"],
                             ["-q", "verify", "-s", "./myshell B A", "sub/a.txt"], ["-q", "clean", "sub"], ["-q", "-s", "no-such-shell-xyz -c", "sub/a.txt"],
                             ["-q", "-s", "   ", "sub/a.txt"]])
    want_sh = b"A|B|hello  world 'x'    and more|D=sub\nafter\n"   # the output has no final newline, so the blank line's ending terminates it
    shell_ok = [ses[1][0] == 0 and ses[1][1].get("sub/a.txt") == want_sh, ses[2][0] == 0, ses[3][0] == 1,
                ses[5][0] == 1 and "sub/a.txt" not in ses[5][1], ses[6][0] == 1]
    if not all(shell_ok):
        violations.append({"found": True, "replay": {"property": "C17", "what": "the configured shell is not invoked as documented (arguments first, the joined command as one final argument, the source's directory)",
                           "steps": "-s './myshell A  B' build; verify same shell; verify other args (must fail); clean; unresolvable shell (must fail, nothing written); blank -s = default sh -c (command `hello` fails)",
                           "steps_ok": shell_ok, "output": short(ses[1][1].get("sub/a.txt")), "expected": short(want_sh), "exits": [x[0] for x in ses]}})
    kn = []
    if known:
        kn.append("class=txtpp_file_nested TXTPP_FILE is the base-relative path and does not designate the source from the command's directory for sources below (not directly in) the base directory: "
                  "%d cases, e.g. %s" % (sum(known.values()), sorted(known)[0]))
    cov = {"evaluations": len(projs) + 3 + len(ses), "distinct_nontrivial": len(nontriv),
           "rule": "sources at depth 0..3 x base directory {root, /sub, /sub/deep, unrelated /other} x process cwd {unchanged, root, a decoy directory containing the same relative directory names, /sub} "
                   "(library entry point through the harness; base given relative to the cwd when possible) x {ok, non-zero exit}; each source runs pwd -P, prints TXTPP_FILE, a 3-line command and a 2-line command; "
                   "checked on the implementation: working directory, joining by single spaces, TXTPP_FILE designates the source, non-zero status fails; CLI: TXTPP_FILE guard, no recursion, and a configured shell (-s) receiving its arguments then the joined command as one argument; "
                   "distinct_nontrivial = distinct (source, base, cwd) with all run directives succeeding",
           "txtpp_file_designates_source": ok_file, "known_finding_cases": sum(known.values()), "cli_guard": cli, "configured_shell_steps_ok": shell_ok,
           "samples": [{"source": meta[5][0], "base": meta[5][1], "cwd": meta[5][2], "output": short(oi[5]["F"].get(gen.out_name(meta[5][0])))}]}
    return {"coverage": cov, "violations": violations, "known": kn}
check_C17.needs_cli = True

# ------------------------------------------------------------------ C18 robustness
def rand_bytes_source(r):
    k = r.below(6)
    pieces = [b"TXTPP#", b"-TXTPP#run ", b"// TXTPP#write ", b"TXTPP#tag T", b"TXTPP#include ", b"TXTPP#temp ", b"T", b"\n", b"\r\n", b"\r", b"\x00", b"\xff", b"\xc3", b"\xe2\x80", b"\xe2\x80\x80",
              "é".encode(), "　".encode(), b" ", b"\t", b"x", b"-", b"inc.txt", b"t.tmp", b"printf x", b"\xf0\x9f\x98\x80", b"a" * 70]
    if k == 0: return bytes(r.below(256) for _ in range(r.below(120)))
    if k == 1: return b"".join(r.choice(pieces) for _ in range(r.below(40)))
    if k == 2: return b"x" * (1 + r.below(3)) * 20000 + b"\n" + r.choice(pieces)     # a huge line
    if k == 3: return b"\n" * r.below(50) + r.choice(pieces)
    if k == 4:   # valid directive lines followed by continuation candidates cut inside multi-byte characters
        pre = r.choice(["é ".encode(), "　x".encode(), b"\xc3\xa9\xc3\xa9", b"// "])
        return b"  " + pre + b"TXTPP#run printf x\n  " + pre[:r.below(len(pre) + 1)] + r.choice([b"", b"\xa9", b"\x80 y", "é".encode()]) + b"\n" + r.choice(pieces)
    g = gen.SrcGen(r, includes=["inc.txt", "missing"], temps=["t.tmp", "u.tmp"], allow_errors=True)
    return g.build(r.below(8))

def check_C18(tier_, sd, consts_ok, consts_detail):
    rng = Rng(sd).fork("C18")
    n = 1500 if tier_ == "quick" else 40000
    projs = []
    for k in range(n):
        r = rng.fork("r%d" % k)
        p = Project("rb%d" % k)
        p.files = [("/s.txt.txtpp", rand_bytes_source(r)), ("/inc.txt", r.choice([b"inc\n", b"\xff\xfe", b"", b"a\r\nb"])),
                   ("/sub/t.txtpp", rand_bytes_source(r))]
        if r.chance(1, 3): p.files.append(("/s.txt", rand_bytes_source(r)))      # an existing generated file
        if r.chance(1, 4): p.files.append(("/t.tmp", bytes(r.below(256) for _ in range(r.below(20)))))
        p.mode = r.below(4); p.recursive = r.chance(1, 2); p.trailing = r.chance(1, 2)
        p.threads = r.choice([0, 1, 1, 2, 4, 16])
        p.inputs = [r.choice([".", "s.txt", "s.txt.txtpp", "sub", "sub/t", "nothing"]) for _ in range(1 + r.below(2))]
        p.sched = None if r.chance(1, 2) else [r.below(4) for _ in range(12)]
        projs.append(p)
    # systematic: multi-line directives with non-ASCII prefixes, continuation candidates indented by 0 .. bytes+1 spaces,
    # then nothing / ASCII / a multi-byte character (byte-offset slicing must stay on character boundaries)
    kk = 0
    for pre in ["é ", "—", "«", "　x", "ééé", "é", "a—b "]:
        nb = len(pre.encode())
        for nsp in range(0, nb + 2):
            for tail in ["", "x", "aé", "é", "—"]:
                for ty in ("run printf x", "write w", "", "temp t.tmp"):
                    p = Project("sys%d" % kk); kk += 1
                    src = "  " + pre + "TXTPP#" + ty + "\n  " + " " * nsp + tail + "\n  " + pre.rstrip() + "\nend\n"
                    p.files = [("/s.txt.txtpp", src.encode())]; p.inputs = ["s.txt"]; p.mode = kk % 4; p.threads = 2; p.sched = None
                    projs.append(p)
    env = dict(os.environ, VP_WATCHDOG_S="8")     # a stuck run costs this long (and a process restart); honest runs take milliseconds
    outs = [parse_obs(x) for x in run_impl([p.text() for p in projs], env=env)]
    violations = []; cls = collections.Counter(); nontriv = set()
    for p, a in zip(projs, outs):
        cls[a["verdict"]] += 1
        if a["verdict"] not in ("ok", "err"):
            if len(violations) < 5: violations.append(proj_violation("C18", "the run ended with %s instead of success or a reported error" % a["verdict"], p, a, None))
        else: nontriv.add((a["verdict"], p.mode, hashlib.sha256(p.files[0][1]).hexdigest()[:8]))
    # the model never panics either (theorems of props/C18.v); cross-check the verdict class on valid-UTF-8, controlled cases
    # (the extracted model uses unary naturals for lengths: very long lines are left to the implementation side only)
    mp = [p for p in projs if p.sched is not None and p.threads != 0 and all(len(c) < 4000 for _, c in p.files)]
    mcases = [p.text() for p in mp]
    complete_oracles(mp)
    mo = [parse_obs(x) for x in run_model([p.text() for p in mp])]
    mpanic = [p for p, o in zip(mp, mo) if o["verdict"] not in ("ok", "err")]
    for p in mpanic[:2]:
        violations.append({"found": False, "replay": {"property": "C18", "broken": "the model itself reports a panic/fuel exhaustion: theorem pp_run_no_panic / run_loop_no_panic no longer describes it", "project": p.to_json()}})
    # tag injection slices the line at offsets computed from several searches: overlapping tags, repeated occurrences, occurrences inside
    # and right after an injected region, multi-byte neighbours
    tagp = []
    for k_, (t1, t2, line) in enumerate([("AB", "BC", "xxxxABC BC"), ("AB", "BC", "ABC"), ("AB", "BC", "BCABC BC AB"), ("ab", "bcd", "abcd bcd abcd"), ("Té", "éX", "TéX éX Té"),
                                         ("AAA", "AAB", "AAAB AAB AAA"), ("AB", "BA", "ABA BAB ABAB"), ("X", "YXZ", "YXZ X YXZ"), ("AB", "BC", "é ABC é BC é"), ("ab", "bc", "a" * 40 + "abc" + "b" * 40 + "bc")]):
        for md in (0, 3):
            q = Project("tagov%d_%d" % (k_, md))
            q.files = [("/s.txt.txtpp", ("-TXTPP#tag %s\n=TXTPP#write one\n-TXTPP#tag %s\n=TXTPP#write two\n%s\n%s %s\n" % (t1, t2, line, t1, t2)).encode())]
            q.inputs = ["s.txt"]; q.mode = md; q.sched = [0] * 4; q.threads = 2
            tagp.append(q)
    gi_, gm_ = both(tagp, oracle=False)
    for q, a, b in zip(tagp, gi_, gm_):
        if a["verdict"] in ("hang", "panic") or (b["verdict"] in ("ok", "err") and a["verdict"] != b["verdict"]):
            if len(violations) < 5: violations.append(proj_violation("C18", "overlapping tags with repeated occurrences: the run ended with `%s` (model: %s)" % (a["verdict"], b["verdict"]), q, a, b, found=a["verdict"] in ("hang", "panic")))
        cls["tag-overlap/" + a["verdict"]] += 1
    # the binary: option values including zero threads
    cli = []
    import tempfile
    d = tempfile.mkdtemp(prefix="vp-c18-", dir=os.environ.get("VP_TMP", "/dev/shm"))
    try:
        open(os.path.join(d, "a.txt.txtpp"), "wb").write(b"x\n-TXTPP#run printf y\n\n")
        for args in (["-j", "0"], ["-j", "1"], ["-j", "16"], ["verify", "-j", "0"], ["clean", "-j", "0"], ["-N", "-j", "0"], ["-s", "", "-j", "2"], ["-r", "-j", "3"], ["-s", " ", "-j", "2"], ["-s", "\t  ", "verify"], ["-N", "-s", "  "], ["-s", "   ", "clean"]):
            try:
                r = subprocess.run([CLI, "-q"] + args, cwd=d, stdout=subprocess.DEVNULL, stderr=subprocess.DEVNULL, timeout=30)
                rc = r.returncode
            except subprocess.TimeoutExpired:
                rc = "timeout"
            cli.append((" ".join(args), rc))
            if "0" in args and args[args.index("0") - 1] == "-j" and rc == 0:
                pass    # accepting zero threads (e.g. treating it as one) would also satisfy the property
            if rc not in (0, 1, 2):
                violations.append({"found": True, "replay": {"property": "C18", "what": "txtpp %s ended with %s (panic, abort or hang) instead of exit 0/1" % (" ".join(args), rc),
                                   "how": "in a directory containing a.txt.txtpp"}})
        # commands whose output is far larger than a pipe buffer (64 KiB), on stdout and on stderr, succeeding and failing, in
        # every mode: the run must end (no dead-lock between the child's write and the worker's wait) with the right status
        open(os.path.join(d, "big.txt.txtpp"), "wb").write(b"top\n-TXTPP#run head -c 300000 /dev/zero | tr '\\0' x\n\nend\n")
        open(os.path.join(d, "err.txt.txtpp"), "wb").write(b"top\n-TXTPP#run head -c 300000 /dev/zero | tr '\\0' e >&2; printf ok\n\nend\n")
        open(os.path.join(d, "fail.txt.txtpp"), "wb").write(b"top\n-TXTPP#run head -c 300000 /dev/zero | tr '\\0' e >&2; head -c 100000 /dev/zero | tr '\\0' o; exit 3\n\nend\n")
        # a failing file among many: the process must end (exit 1), whatever the thread count
        os.makedirs(os.path.join(d, "many"))
        open(os.path.join(d, "many", "000bad.txt.txtpp"), "wb").write(b"TXTPP#include missing.txt\n")
        for i_ in range(150): open(os.path.join(d, "many", "f%03d.txtpp" % i_), "wb").write(b"f\n")
        for thr in ("1", "4"):
            try:
                r = subprocess.run([CLI, "-q", "-j", thr, "000bad.txt.txtpp"] + ["f%03d.txtpp" % i_ for i_ in range(150)], cwd=os.path.join(d, "many"), stdout=subprocess.DEVNULL, stderr=subprocess.DEVNULL, timeout=30)
                rc = r.returncode
            except subprocess.TimeoutExpired:
                rc = "timeout"
            cli.append(("one failing file + 150 others -j " + thr, rc))
            if rc != 1:
                violations.append({"found": True, "replay": {"property": "C18", "what": "txtpp -j %s on one failing file followed by 150 trivial ones ended with %s (expected exit 1)" % (thr, rc),
                                   "how": "000bad.txt.txtpp = `TXTPP#include missing.txt`, f000..f149.txtpp = `f`; all named on the command line, the failing one first"}})
        for args, want in ((["big.txt"], 0), (["-N", "big.txt"], 0), (["verify", "big.txt"], 0), (["err.txt"], 0), (["fail.txt"], 1), (["clean", "big.txt", "err.txt"], 0)):
            try:
                r = subprocess.run([CLI, "-q"] + args, cwd=d, stdout=subprocess.DEVNULL, stderr=subprocess.DEVNULL, timeout=30)
                rc = r.returncode
            except subprocess.TimeoutExpired:
                rc = "timeout"
            cli.append(("big-output " + " ".join(args), rc))
            size_ok = True
            if args == ["big.txt"]:
                try: size_ok = os.path.getsize(os.path.join(d, "big.txt")) == 4 + 300000 + 1 + 4
                except OSError: size_ok = False
            if rc != want or not size_ok:
                violations.append({"found": True, "replay": {"property": "C18", "what": "txtpp %s on a run directive printing 300 kB ended with %s (expected exit %d%s)" % (" ".join(args), rc, want, "" if size_ok else ", output incomplete"),
                                   "how": "`-TXTPP#run head -c 300000 /dev/zero | tr '\\0' x` (stdout), the same on stderr, and a failing command writing to both"}})
    finally:
        shutil.rmtree(d, ignore_errors=True)
    cov = {"evaluations": len(projs) + len(cli) + len(tagp), "distinct_nontrivial": len(nontriv), "systematic_continuation_cases": kk, "overlapping_tag_cases": len(tagp),
           "rule": "robustness stream OUTSIDE the documented domain: random bytes, invalid UTF-8, NUL, lone CR, huge and empty lines, directive lines whose continuation candidates are cut inside multi-byte characters, grammar-aware sources; "
                   "pre-existing generated files with arbitrary bytes; four modes; 0-16 threads; recursive on/off; controlled and free scheduling; any-thread panic hook + 8 s watchdog in the harness; CLI with -j 0 in every mode; "
                   "observation = {ok, err, panic, hang}; distinct_nontrivial = distinct (verdict, mode, source hash)",
           "verdict_classes": dict(cls), "cli_runs": cli, "model_cross_checked": len(mp),
           "samples": [repr(projs[1].files[0][1][:80])]}
    return {"coverage": cov, "violations": violations}
check_C18.needs_cli = True

# ------------------------------------------------------------------ C04 no false success
def check_C04(tier_, sd, consts_ok, consts_detail):
    rng = Rng(sd).fork("C04")
    names = NAMES4
    shapes = [[(0, 1), (1, 2), (2, 3)], [(0, 1), (0, 2), (1, 3), (2, 3)], [(0, 1), (2, 3)], []]
    faults = ["bad-directive", "failing-command", "killed-command", "tag-shadowed-unused", "missing-include", "include-directory", "output-is-directory", "temp-is-directory", "temp-txtpp", "tag-unused", "tag-twice", "invalid-utf8", "verify-mismatch"]
    projs = []; meta = []
    k = 0
    for edges in shapes:
        for pos in range(4):
            for fault in faults:
                for rep in range(1 if tier_ == "quick" else 3):
                    r = rng.fork("f%d" % k); k += 1
                    p = digraph_project("fl%d" % k, names, edges, [0, 2] if edges == [(0, 1), (2, 3)] else ([0] if edges else [0, 1, 2, 3]))
                    fm = dict(p.files); src = names[pos]; body = fm[src]
                    tag = src.split("/")[-1].split(".")[0]
                    inj = {"bad-directive": b"TXTPP#run no prefix on a multi-line directive\n",
                           "failing-command": b"%TXTPP#run exit 3\n\n",
                           "killed-command": b"%TXTPP#run printf 'half\\n'; kill -9 $$\n\n",     # the shell dies by a signal: no exit code at all
                           "missing-include": b"%TXTPP#include no_such_file.txt\n",
                           "include-directory": b"%TXTPP#include .\n",
                           "temp-is-directory": b"%TXTPP#temp adir\n%x\n\n",
                           "temp-txtpp": (b"%TXTPP#temp gen.txtpp\n%x\n\n" if (k % 2) else b"%TXTPP#temp gen.txtpp.md\n%x\n\n"),
                           "tag-unused": b"%TXTPP#tag NEVERUSED\n%TXTPP#write v\n\n",
                           "tag-twice": b"%TXTPP#tag T1\n%TXTPP#tag T2\n",
                           "tag-shadowed-unused": b"%TXTPP#tag <<A\n=TXTPP#write one\n%TXTPP#tag A>>\n=TXTPP#write two\n\nvalue: <<A>> end\n",     # `A>>` overlaps the injected `<<A`: it stays stored and is never used
                           "invalid-utf8": b"bad \xff\xfe line\n"}.get(fault)
                    mode = 0
                    if inj is not None:
                        # inject before the last line of the source
                        lines_ = body.split(b"\n"); body2 = b"\n".join(lines_[:-2]) + b"\n" + inj + b"\n".join(lines_[-2:])
                        fm[src] = body2
                    if fault == "temp-is-directory": p.dirs.append(src.rsplit("/", 1)[0] + "/adir")
                    if fault == "output-is-directory":
                        o = gen.out_name(src); fm.pop(o, None); p.dirs.append(o)
                        p.inputs = [names[i].lstrip("/") for i in p.input_idx]     # name sources: the output name now designates a directory
                    p.files = sorted(fm.items())
                    required = reachable_from(p.input_idx, edges)
                    p.sched = [r.below(5) for _ in range(20)]
                    p.idle = (k % 3 == 0)          # the coordinator also polls an empty queue before every completion: a failure of the task still in flight must not be lost
                    if fault == "verify-mismatch":
                        p.step2 = True
                    projs.append(p); meta.append((fault, pos, pos in required, edges))
    # verify-mismatch: build first (model tree), tamper the output of `pos`, then verify
    firsts = [p for p in projs if getattr(p, "step2", False)]
    fi, fm_ = both(firsts)
    for p, a in zip(firsts, fi):
        idx = projs.index(p); fault, pos, req, edges = meta[idx]
        t = follow(p, a); fmm = dict(t.files); o = gen.out_name(names[pos])
        if o in fmm: fmm[o] = fmm[o] + b"tampered"
        p.files = sorted(fmm.items()); p.dirs = t.dirs; p.mode = 3
    oi, om = both(projs)
    violations = []; dist = collections.Counter(); nontriv = set()
    for p, a, b, (fault, pos, req, edges) in zip(projs, oi, om, meta):
        dist[(fault, "required" if req else "not-required", a["verdict"])] += 1
        if a["verdict"] in ("panic", "hang"):
            if len(violations) < 5: violations.append(proj_violation("C04", "run ended with " + a["verdict"], p, a, b)); continue
        if req and a["verdict"] == "ok":
            if len(violations) < 5: violations.append(proj_violation("C04", "FALSE SUCCESS: fault `%s` in required file %s but the run reported success" % (fault, names[pos]), p, a, b))
        if not req and a["verdict"] != "ok" and fault != "verify-mismatch":
            if len(violations) < 5: violations.append(proj_violation("C04", "a fault in a file that is not required failed the run (%s in %s)" % (fault, names[pos]), p, a, b, found=False))
        if a["verdict"] == "ok" and p.mode == 0:
            exp = seq_build(names, edges)
            for i in reachable_from(p.input_idx, edges):
                if i != pos and a["F"].get(gen.out_name(names[i])) != exp.get(i) and not (fault in ("tag-unused",) ):
                    pass
        if a["verdict"] != b["verdict"] and len(violations) < 5:
            violations.append(proj_violation("C04", "verdict differs from the model (fault %s at %s)" % (fault, names[pos]), p, a, b, found=(req and a["verdict"] == "ok")))
        nontriv.add((fault, pos, tuple(map(tuple, edges))))
    # the failing file under EVERY completion order (capped), with the coordinator also polling an empty queue before each completion:
    # wherever the failure sits and whichever task is the last one in flight, the run fails
    fsw = []
    for p, (fault, pos, req, edges) in zip(projs, meta):
        if fault == "failing-command" and edges and req and not getattr(p, "step2", False):
            q = p.copy(); q.id = p.id + ".sw"; q.idle = True; q.sched = []; fsw.append(q)
            # and with EVERY file requested, so that a dependency can be finished before its depender's first pass is looked at
            q2 = q.copy(); q2.id = p.id + ".swall"; q2.inputs = [n_.lstrip("/") for n_ in names]; fsw.append(q2)
    fruns = enumerate_schedules(fsw, max_per=(25 if tier_ == "quick" else 200))
    fmo = [parse_obs(x) for x in run_model([q.text() for (_, q, _) in fruns])]
    for (k_, q, a), b in zip(fruns, fmo):
        if a["verdict"] == "ok" and len(violations) < 5:
            violations.append(proj_violation("C04", "FALSE SUCCESS under one completion order (with idle polls of the coordinator): a required file fails but the run reported success", q, a, b))
        elif a["verdict"] != b["verdict"] and len(violations) < 5:
            violations.append(proj_violation("C04", "verdict differs from the model under one completion order", q, a, b, found=False))
    # sources whose LAST item produces no text (a closing empty directive, a temp block, only empty directives): the end-of-file
    # work - the verify "nothing left over" test, the --needed compare-and-write - must still happen
    tails = []
    for k_, body in enumerate([b"head\n-TXTPP#run printf 'x\\n'\n=TXTPP#\n", b"-TXTPP#\n=TXTPP# only empty directives\n", b"head\n-TXTPP#temp t.tmp\n-body\n",
                               b"/* TXTPP#run printf 'a\\nb\\n'\n-TXTPP# */\n", b""]):
        fresh = {0: b"head\nx\n", 1: b"", 2: b"head\n", 3: b"a\nb\n", 4: b""}[k_]
        for what, md, planted in (("verify-appended", 3, fresh + b"EXTRA"), ("verify-exact", 3, fresh), ("needed-missing", 1, None), ("needed-stale", 1, b"stale\n"), ("needed-longer", 1, fresh + b"tail\n")):
            p = Project("tail%d%s" % (k_, what)); p.files = [("/s.txt.txtpp", body)] + ([("/s.txt", planted)] if planted is not None else [])
            p.inputs = ["s.txt.txtpp"]; p.mode = md; p.sched = [0] * 4; p.what = what; p.fresh = fresh
            tails.append(p)
    complete_oracles(tails)
    ti, tm = both(tails)
    for p, a, b in zip(tails, ti, tm):
        if p.what == "verify-appended" and a["verdict"] == "ok":
            violations.append(proj_violation("C04", "FALSE SUCCESS: verify accepted an output with extra bytes (source ends with an item that produces no text)", p, a, b))
        elif p.what == "verify-exact" and a["verdict"] != "ok" and b["verdict"] == "ok":
            violations.append(proj_violation("C04", "verify rejected an exact output (source ends with an item that produces no text)", p, a, b))
        elif p.what.startswith("needed") and a["verdict"] == "ok" and a["F"].get("/s.txt") != p.fresh:
            violations.append(proj_violation("C04", "FALSE SUCCESS: --needed reported success but the output is missing or stale (%s)" % p.what, p, a, b, extra={"expected": short(p.fresh)}))
        elif (a["verdict"], a["F"]) != (b["verdict"], b["F"]) and len(violations) < 6:
            violations.append(proj_violation("C04", "end-of-file handling differs from the model (%s)" % p.what, p, a, b, found=False))
    # OS-level faults on the real binary: write/flush failure (disk full), output size limit
    cli = []
    import tempfile
    d = tempfile.mkdtemp(prefix="vp-c04-", dir=os.environ.get("VP_TMP", "/dev/shm"))
    try:
        big = ("line of text number %d\n" * 1)
        # (--needed onto /dev/full is deliberately absent: reading that device back never ends - special files are outside every model here)
        for case in ("devfull-small", "devfull-large", "fsize-limit", "readonly-dir", "bigchunk-fsize16", "bigchunk-fsize24", "bigchunk-devfull"):
            cd = os.path.join(d, case); os.makedirs(cd)
            nlines = 5 if case == "devfull-small" else 40000
            open(os.path.join(cd, "a.txt.txtpp"), "w").write("".join("line of text number %d\n" % i for i in range(nlines)))
            args = [CLI, "-q", "a.txt"]; pre = None; exp_fail = True
            if case.startswith("bigchunk"):
                # one chunk of 40 KiB (an include) goes around the BufWriter buffer in a single write; the limit falls inside it;
                # with -n nothing is written after it, so only a short write can reveal the fault
                open(os.path.join(cd, "big.txt"), "w").write("".join("big line %05d %s\n" % (i, "z" * 20) for i in range(1200))[:-1])
                open(os.path.join(cd, "a.txt.txtpp"), "w").write("header\nTXTPP#include big.txt\n")
                nlines = 1200
                if case == "bigchunk-devfull": os.symlink("/dev/full", os.path.join(cd, "a.txt")); args = [CLI, "-q", "-n", "a.txt"]
                else: args = ["sh", "-c", "trap '' XFSZ; ulimit -f %s; exec %s -q -n a.txt" % (case[-2:], CLI)]
            if case in ("devfull-small", "devfull-large"):
                os.symlink("/dev/full", os.path.join(cd, "a.txt"))
            elif case == "fsize-limit":
                args = ["sh", "-c", "trap '' XFSZ; ulimit -f 8; exec %s -q a.txt" % CLI]
            elif case == "readonly-dir":
                os.chmod(cd, 0o555)
                exp_fail = os.geteuid() != 0     # root ignores directory permissions
            try:
                r = subprocess.run(args, cwd=cd, stdout=subprocess.DEVNULL, stderr=subprocess.DEVNULL, timeout=60)
                rc = r.returncode
            except subprocess.TimeoutExpired:
                rc = "timeout"
            if case == "readonly-dir": os.chmod(cd, 0o755)
            cli.append((case, rc))
            complete = False
            outp = os.path.join(cd, "a.txt")
            if os.path.isfile(outp) and not os.path.islink(outp):      # never read through the /dev/full link
                try:
                    complete = open(outp, "rb").read(64 << 20).count(b"\n") == nlines
                except OSError: pass
            if rc == 0 and not complete and exp_fail:
                violations.append({"found": True, "replay": {"property": "C04", "what": "FALSE SUCCESS: exit status 0 although the output could not be written completely (%s)" % case,
                                   "how": "a.txt.txtpp with %d lines; output path a.txt -> /dev/full, or `ulimit -f 8` with SIGXFSZ ignored" % nlines}})
            if rc not in (0, 1):
                violations.append({"found": True, "replay": {"property": "C04", "what": "abnormal end (%s) under fault %s" % (rc, case)}})
    finally:
        subprocess.run(["chmod", "-R", "u+w", d]); shutil.rmtree(d, ignore_errors=True)
    # the binary: a verify that finds a stale output fails whatever top-level flags precede the subcommand (a `-N` there must not turn it
    # into a build that repairs the file and reports success)
    vs = cli_session({"leaf.txt.txtpp": "leaf\n", "leaf.txt": "TAMPERED\n", "root.txt.txtpp": "r\n-TXTPP#include leaf.txt\n", "root.txt": "r\nleaf\n"},
                     [["verify", "-q"], ["-q", "verify", "-q", "-j", "1"], ["-N", "verify", "-q"], ["--needed", "-q", "verify", "-q", "root.txt"], ["-N", "-n", "verify", "-q", "leaf.txt"]])
    vs_ok = [x[0] == 1 and x[1].get("leaf.txt") == b"TAMPERED\n" and x[1].get("root.txt") == b"r\nleaf\n" for x in vs]
    if not all(vs_ok):
        violations.append({"found": True, "replay": {"property": "C04", "what": "FALSE SUCCESS: `txtpp [flags] verify` on a tree with a tampered output did not fail, or changed a file",
                           "steps": "verify; -q verify -j 1; -N verify; --needed -q verify root.txt; -N -n verify leaf.txt", "steps_ok": vs_ok, "exits": [x[0] for x in vs],
                           "leaf.txt_after_each": [short(x[1].get("leaf.txt")) for x in vs]}})
    cov = {"evaluations": len(projs) + len(firsts) + len(cli) + len(tails) + len(vs) + len(fruns), "distinct_nontrivial": len(nontriv), "sources_ending_without_text": len(tails), "cli_verify_steps_ok": vs_ok,
           "failing_file_schedules_with_idle_polls": len(fruns),
           "rule": "fault matrix: {prefix-less multi-line directive, failing command, missing include, include of a directory, output path occupied by a directory, temp target is a directory, temp target ending in .txtpp, "
                   "unused tag, tag while listening, invalid UTF-8 line, verify mismatch} x position {root, middle, leaf, unrelated file} x graph shape {chain, diamond, two components, independent} x random controlled schedule, "
                   "through the library; the binary under real OS faults (output -> /dev/full small and large, RLIMIT_FSIZE with SIGXFSZ ignored, read-only directory); "
                   "checked: a fault in a required file => error verdict / non-zero exit; distinct_nontrivial = distinct (fault, position, graph)",
           "fault_verdict_distribution": {"%s/%s/%s" % k_: v for k_, v in sorted(dist.items())}, "cli_faults": cli,
           "samples": [{"fault": meta[7][0], "position": names[meta[7][1]], "required": meta[7][2], "verdict": oi[7]["verdict"]}]}
    xcheck(cov, violations, "C04", projs, om)
    return {"coverage": cov, "violations": violations}
check_C04.needs_cli = True
check_C08.needs_cli = True
