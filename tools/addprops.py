import sys, subprocess, re
pid = sys.argv[1]; mods = sys.argv[2].split(","); pairs = sys.argv[3:]
p = "/verif/coq/props.src/%s.txt" % pid
s = open(p).read()
lines = s.split("\n")
hi = next(i for i, l in enumerate(lines) if l.startswith("Require Import"))
hdr = lines[hi]
for m in mods:
    full = "Txtpp.proofs." + m
    if full + " " not in hdr and full + "." not in hdr:
        # insert before the first '. From' or final '.'
        k = hdr.index(". From") if ". From" in hdr else hdr.rindex(".")
        hdr = hdr[:k] + " " + full + hdr[k:]
lines[hi] = hdr
r = subprocess.run(["python3", "/verif/tools/seedprops.py", hdr] + pairs, stdout=subprocess.PIPE, stderr=subprocess.STDOUT, text=True)
if r.returncode != 0: print(r.stdout[-3000:]); sys.exit(1)
out = "\n".join(lines).rstrip("\n") + "\n" + r.stdout
open(p, "w").write(out)
print(pid, "added", len(pairs))
