#!/usr/bin/env python3
"""Run every quick check against a HARMLESS rewrite of /repo (a patch that a reviewer accepts as 'no functional change').

usage: benign_eval.py <id> <patch.diff> [meta.json index] [check ids...]
Applies the patch to /repo, runs the checks (default: all 18, quick tier, VERIF_SEED=1), restores /repo and the evidence
files, rebuilds the harness from the unchanged tree, and records under /verif/benign/<id>/ which checks stayed quiet.
A VIOLATION line here is a false alarm of the machinery (or the rewrite is not harmless after all: look at the replay)."""
import sys, os, json, subprocess, shutil, re, time
VERIF = os.path.dirname(os.path.dirname(os.path.abspath(__file__)))
ENV = dict(os.environ, CARGO_NET_OFFLINE="true", VERIF_SEED=os.environ.get("VERIF_SEED", "1"))
ALL = ["C%02d" % i for i in range(1, 19)]

def sh(cmd, cwd=None, timeout=3600):
    r = subprocess.run(cmd, shell=True, cwd=cwd, env=ENV, stdout=subprocess.PIPE, stderr=subprocess.STDOUT, text=True, timeout=timeout)
    return r.returncode, r.stdout

def main():
    bid, patch = sys.argv[1], os.path.abspath(sys.argv[2])
    checks = [a for a in sys.argv[3:] if re.fullmatch(r"C\d\d", a)] or ALL
    dst = os.path.join(VERIF, "benign", bid); os.makedirs(dst, exist_ok=True)
    if os.path.abspath(patch) != os.path.abspath(os.path.join(dst, "patch.diff")): shutil.copy(patch, os.path.join(dst, "patch.diff"))
    rc, out = sh("git -C /repo status --porcelain -- src Cargo.toml")
    if out.strip(): print("/repo is not clean:", out); return 2
    rc, out = sh("git -C /repo apply %s" % patch)
    if rc != 0: print("patch does not apply to /repo:", out); return 2
    results = {}
    try:
        rc, out = sh("./vp setup", cwd=VERIF)
        if rc != 0: print("setup failed with the patch:", out[-500:]); return 2
        for c in checks:
            t0 = time.time()
            rc, out = sh("./vp check %s quick" % c, cwd=VERIF, timeout=3000)
            viol = [l for l in out.split("\n") if l.startswith("VIOLATION")]
            results[c] = {"exit": rc, "violation_lines": viol[:3], "seconds": round(time.time() - t0, 1)}
            for k, l in enumerate(viol[:2]):
                m = re.search(r"replay=(\S+)", l)
                if m and os.path.exists(m.group(1)): shutil.copy(m.group(1), os.path.join(dst, "replay_%s_%d.json" % (c, k)))
    finally:
        sh("git -C /repo checkout -- .")
        sh("git -C %s checkout -- evidence" % VERIF)
        sh("rm -rf %s/replays" % VERIF)
        sh("./vp setup", cwd=VERIF)
    alarms = [c for c, r in results.items() if r["exit"] != 0 or r["violation_lines"]]
    json.dump({"id": bid, "checks": results, "alarms": alarms}, open(os.path.join(dst, "result.json"), "w"), indent=1)
    print(json.dumps({"id": bid, "alarms": alarms, "seconds": sum(r["seconds"] for r in results.values())}))
    return 0
sys.exit(main())
