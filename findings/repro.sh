#!/bin/bash
# Reproduces the genuine defects F1..F6 found in Pistonite/txtpp (see DESIGN.md section 7).
# (F5a needs the library entry point with base_dir != cwd: see `vp check C17`, harness sub-command `run` with base/cwd variants.)
# usage: repro.sh <path to txtpp binary> [F1|F2|F3|F4|F5a|F5b|F6 ...]
# prints "<id> DEFECT" when the defect manifests, "<id> ok" when the repaired behaviour is seen.
BIN=$(readlink -f "$1"); shift
ALL="F1 F2 F3 F4 F5b F6 F7 F8"; [ $# -gt 0 ] && ALL="$*"
T=$(mktemp -d /dev/shm/txtpp-repro.XXXXXX); trap 'rm -rf "$T"' EXIT
for id in $ALL; do
  D="$T/$id"; mkdir -p "$D"; cd "$D"
  case $id in
  F1) printf 'x\n' > a.txt.txtpp
      timeout 20 "$BIN" -q -j 0 a.txt >/dev/null 2>&1; rc=$?
      if [ $rc -eq 0 ] || [ $rc -eq 1 ]; then echo "F1 ok (exit $rc)"; else echo "F1 DEFECT (exit $rc: -j 0 panics)"; fi;;
  F2) printf 'x\n' > a.txt.txtpp; printf '\xff\xfe' > a.txt
      "$BIN" -q -N a.txt >/dev/null 2>&1; rc=$?
      if [ $rc -eq 0 ] && [ "$(cat a.txt)" = "x" ]; then echo "F2 ok"; else echo "F2 DEFECT (exit $rc: --needed fails on a non-UTF-8 stale output)"; fi;;
  F3) printf -- '-TXTPP#temp t.tmp\n-body\n\nx\n' > a.txt.txtpp; printf '\xff\xfe' > t.tmp
      "$BIN" -q a.txt >/dev/null 2>&1; rc=$?
      if [ $rc -eq 0 ] && [ "$(cat t.tmp)" = "body" ]; then echo "F3 ok"; else echo "F3 DEFECT (exit $rc: build fails on a non-UTF-8 stale temp file)"; fi;;
  F4) mkdir d; printf 'inner\n' > d/x.txtpp; printf 'outer\n' > d/x.txtpp.txtpp
      "$BIN" -q clean d >/dev/null 2>&1
      if [ -f d/x.txtpp ] && [ "$(cat d/x.txtpp)" = "inner" ]; then echo "F4 ok"; else echo "F4 DEFECT (clean deleted the source d/x.txtpp)"; fi;;
  F5b) mkdir -p sub/deep; printf -- '-TXTPP#run test -f "$TXTPP_FILE" && echo yes || echo no\n' > sub/deep/r.txt.txtpp
      "$BIN" -q sub/deep/r.txt >/dev/null 2>&1
      if [ "$(cat sub/deep/r.txt 2>/dev/null)" = "yes" ]; then echo "F5b ok"; else echo "F5b DEFECT (TXTPP_FILE does not designate the source)"; fi;;
  F6) mkdir -p a/b; ln -s .. a/b/up; printf 'x\n' > a/f.txt.txtpp
      timeout 10 "$BIN" -q -r a >/dev/null 2>&1; rc=$?
      if [ $rc -eq 124 ]; then echo "F6 DEFECT (recursive scan through a symlink to an ancestor never terminates)"; else echo "F6 ok (exit $rc)"; fi;;
  F7) printf 'x\n' > my.file.txtpp.md
      "$BIN" -q my.file.txtpp.md >/dev/null 2>&1
      if [ -f my.file.md ] && [ ! -f my.md ]; then echo "F7 ok"; else echo "F7 DEFECT (my.file.txtpp.md produced $(ls | grep -v txtpp | tr '\n' ' ') instead of my.file.md)"; fi;;
  F8) mkdir d; printf 'hello\n' > 'd/..txtpp.md'; printf 'unrelated\n' > d.md
      "$BIN" -q clean d >/dev/null 2>&1
      if [ -f d.md ] && [ "$(cat d.md)" = "unrelated" ]; then
        "$BIN" -q d >/dev/null 2>&1
        if [ "$(cat d.md)" = "unrelated" ]; then echo "F8 ok"; else echo "F8 DEFECT (source d/..txtpp.md overwrote ./d.md outside its directory)"; fi
      else echo "F8 DEFECT (clean of d/..txtpp.md deleted ./d.md outside its directory)"; fi;;
  esac
  cd "$T"
done
