//! vph — runs Pistonite/txtpp (built from /repo with the `verif` feature) on cases in the
//! line format shared with the OCaml driver of the extracted Coq model, and prints one
//! canonical observation line per case.  See /verif/tools/vplib.py for the format.
use std::collections::{BTreeMap, BTreeSet};
use std::io::{BufRead, Write};
use std::path::{Path, PathBuf};
use std::sync::atomic::{AtomicBool, AtomicUsize, Ordering};
use std::sync::mpsc;
use std::time::{Duration, SystemTime};
use txtpp::verif::{self, AbsPath, Directive, DirectiveType, GetLineEnding, Shell, TagState, TxtppPath};
use txtpp::{Config, Mode, Txtpp, Verbosity};

static PANICKED: AtomicBool = AtomicBool::new(false);
static COUNTER: AtomicUsize = AtomicUsize::new(0);

fn unhex(t: &str) -> Vec<u8> {
    assert!(t.starts_with('x'), "bad hex token {t}");
    let b = t.as_bytes();
    (0..(b.len() - 1) / 2)
        .map(|i| u8::from_str_radix(&t[1 + 2 * i..3 + 2 * i], 16).unwrap())
        .collect()
}
fn hex(b: &[u8]) -> String {
    let mut s = String::with_capacity(1 + 2 * b.len());
    s.push('x');
    for c in b {
        s.push_str(&format!("{:02x}", c));
    }
    s
}
fn ustr(t: &str) -> Option<String> {
    String::from_utf8(unhex(t)).ok()
}
fn ty_char(t: &DirectiveType) -> &'static str {
    match t {
        DirectiveType::Empty => "E",
        DirectiveType::Include => "I",
        DirectiveType::After => "A",
        DirectiveType::Run => "R",
        DirectiveType::Tag => "G",
        DirectiveType::Temp => "T",
        DirectiveType::Write => "W",
    }
}
fn ty_of(c: &str) -> DirectiveType {
    match c {
        "E" => DirectiveType::Empty,
        "I" => DirectiveType::Include,
        "A" => DirectiveType::After,
        "R" => DirectiveType::Run,
        "G" => DirectiveType::Tag,
        "T" => DirectiveType::Temp,
        "W" => DirectiveType::Write,
        _ => panic!("bad type"),
    }
}
fn show_directive(d: &Directive) -> String {
    format!(
        "{} {} {} {}",
        hex(d.whitespaces.as_bytes()),
        hex(d.prefix.as_bytes()),
        ty_char(&d.directive_type),
        d.args.iter().map(|a| hex(a.as_bytes())).collect::<Vec<_>>().join(",")
    )
}

fn guarded<F: FnOnce() -> String + std::panic::UnwindSafe>(tag: &str, f: F) -> String {
    match std::panic::catch_unwind(f) {
        Ok(s) => s,
        Err(_) => format!("{tag} panic"),
    }
}

fn do_detect(t: &str) -> String {
    let Some(line) = ustr(t) else { return "D invalid-utf8".into() };
    guarded("D", move || match Directive::detect_from(&line) {
        None => "D -".to_string(),
        Some(d) => format!("D {}", show_directive(&d)),
    })
}

fn do_addline(ws: &str, pre: &str, ty: &str, args: &str, line: &str) -> String {
    let (Some(ws), Some(pre), Some(line)) = (ustr(ws), ustr(pre), ustr(line)) else {
        return "A invalid-utf8".into();
    };
    let args: Vec<String> = args.split(',').map(|a| ustr(a).unwrap()).collect();
    let ty = ty_of(ty);
    guarded("A", move || {
        let mut d = Directive::new(&ws, &pre, ty, args);
        match d.add_line(&line) {
            Ok(()) => format!("A ok {}", show_directive(&d)),
            Err(()) => "A stop".to_string(),
        }
    })
}

fn do_tags(le: &str, ops: &[&str]) -> String {
    let le = ustr(le).unwrap();
    let ops: Vec<(char, String)> = ops
        .iter()
        .map(|o| (o.chars().next().unwrap(), ustr(&o[1..]).unwrap()))
        .collect();
    guarded("T", move || {
        let mut st = TagState::new();
        let mut out = String::from("T");
        for (k, arg) in &ops {
            match k {
                'c' => out.push_str(if st.create(arg).is_ok() { " ok" } else { " err" }),
                's' => out.push_str(if st.try_store(arg).is_ok() { " ok" } else { " err" }),
                'i' => {
                    let r = std::panic::catch_unwind(std::panic::AssertUnwindSafe(|| st.inject_tags(arg, &le)));
                    match r {
                        Ok(o) => {
                            out.push(' ');
                            out.push_str(&hex(o.as_bytes()));
                        }
                        Err(_) => {
                            out.push_str(" panic");
                            break;
                        }
                    }
                }
                _ => panic!("bad op"),
            }
        }
        out.push_str(&format!(" H={}", st.has_tags()));
        out
    })
}

fn do_name(t: &str) -> String {
    let Some(s) = ustr(t) else { return "N invalid-utf8".into() };
    guarded("N", move || {
        let p = PathBuf::from(&s);
        let is = p.is_txtpp_file();
        let rm = match p.remove_txtpp() {
            Ok(q) => {
                // print as the normalised component string, like the model
                let comps: Vec<String> = q
                    .components()
                    .filter_map(|c| match c {
                        std::path::Component::Normal(n) => Some(n.to_string_lossy().to_string()),
                        std::path::Component::ParentDir => Some("..".to_string()),
                        std::path::Component::CurDir => Some(".".to_string()),
                        _ => None,
                    })
                    .collect();
                hex(comps.join("/").as_bytes())
            }
            Err(_) => "-".to_string(),
        };
        format!("N {} {}", is, rm)
    })
}

fn scratch_root() -> PathBuf {
    let base = std::env::var("VP_TMP").unwrap_or_else(|_| "/dev/shm".to_string());
    let n = COUNTER.fetch_add(1, Ordering::SeqCst);
    PathBuf::from(base).join(format!("vph-{}-{}", std::process::id(), n))
}

fn do_lines(t: &str) -> String {
    let raw = unhex(t);
    let dir = scratch_root();
    std::fs::create_dir_all(&dir).unwrap();
    let f = dir.join("l");
    std::fs::write(&f, &raw).unwrap();
    let le = f.get_line_ending().map(|s| s.to_string()).unwrap_or_default();
    let r = match std::str::from_utf8(&raw) {
        Ok(s) => {
            let a: Vec<String> = s.lines().map(|l| hex(l.as_bytes())).collect();
            let b: Vec<String> = std::io::BufReader::new(std::fs::File::open(&f).unwrap())
                .lines()
                .map(|l| hex(l.unwrap().as_bytes()))
                .collect();
            if a == b {
                format!("L {} {} v", a.join(","), hex(le.as_bytes()))
            } else {
                format!("L {} <> {} {} v", a.join(","), b.join(","), hex(le.as_bytes()))
            }
        }
        Err(_) => {
            // the model prints its own split; only the validity verdict is comparable
            "L invalid".to_string()
        }
    };
    let _ = std::fs::remove_dir_all(&dir);
    r
}

// ---- whole projects ----
#[derive(Default)]
struct Proj {
    id: String,
    mode: u8,
    trailing: bool,
    recursive: bool,
    threads: usize,
    base: String,
    cwd: Option<String>,
    inputs: Vec<String>,
    files: Vec<(String, Vec<u8>)>,
    dirs: Vec<String>,
    sched: Option<Vec<usize>>,
    /// with a schedule: the coordinator also polls once on an empty queue before every choice
    idle_polls: bool,
    pp: Option<(String, bool)>,
    links: Vec<(String, String)>,
}

const SENTINEL: u64 = 946_684_800; // 2000-01-01

fn subst(content: &[u8], from: &[u8], to: &[u8]) -> Vec<u8> {
    if from.is_empty() || content.len() < from.len() {
        return content.to_vec();
    }
    let mut out = Vec::with_capacity(content.len());
    let mut i = 0;
    while i < content.len() {
        if content[i..].starts_with(from) {
            out.extend_from_slice(to);
            i += from.len();
        } else {
            out.push(content[i]);
            i += 1;
        }
    }
    out
}

#[derive(Clone, PartialEq, Eq, Debug)]
struct Meta {
    ino: u64,
    mtime: SystemTime,
}

fn snapshot(root: &Path, rel: &Path, files: &mut BTreeMap<String, (Option<Vec<u8>>, Meta)>) {
    use std::os::unix::fs::MetadataExt;
    let dir = root.join(rel);
    let Ok(rd) = std::fs::read_dir(&dir) else { return };
    for e in rd.flatten() {
        let name = e.file_name();
        let r = rel.join(&name);
        let rs = format!("/{}", r.display());
        let Ok(md) = std::fs::symlink_metadata(e.path()) else { continue };
        let meta = Meta { ino: md.ino(), mtime: md.modified().unwrap_or(SystemTime::UNIX_EPOCH) };
        if md.file_type().is_symlink() {
            continue;
        } else if md.is_dir() {
            files.insert(rs, (None, meta));
            snapshot(root, &r, files);
        } else {
            files.insert(rs, (Some(std::fs::read(e.path()).unwrap_or_default()), meta));
        }
    }
}

fn set_sentinel(root: &Path, rel: &Path) {
    let dir = root.join(rel);
    let Ok(rd) = std::fs::read_dir(&dir) else { return };
    let t = SystemTime::UNIX_EPOCH + Duration::from_secs(SENTINEL);
    for e in rd.flatten() {
        let Ok(md) = std::fs::symlink_metadata(e.path()) else { continue };
        if md.file_type().is_symlink() {
            continue;
        }
        if md.is_dir() {
            set_sentinel(root, &rel.join(e.file_name()));
        } else if let Ok(f) = std::fs::OpenOptions::new().write(true).open(e.path()) {
            let _ = f.set_modified(t);
        }
    }
}

fn mode_of(m: u8) -> Mode {
    match m {
        0 => Mode::Build,
        1 => Mode::InMemoryBuild,
        2 => Mode::Clean,
        _ => Mode::Verify,
    }
}

fn run_proj(p: Proj) -> String {
    let scratch = scratch_root();
    std::fs::create_dir_all(scratch.join("r")).unwrap();
    std::fs::create_dir_all(scratch.join("m")).unwrap();
    let scratch = scratch.canonicalize().unwrap();
    let root = scratch.join("r");
    let marks = scratch.join("m");
    let rootb = root.display().to_string().into_bytes();
    let marksb = marks.display().to_string().into_bytes();
    for d in &p.dirs {
        std::fs::create_dir_all(root.join(d.trim_start_matches('/'))).unwrap();
    }
    for (f, c) in &p.files {
        let path = root.join(f.trim_start_matches('/'));
        if let Some(parent) = path.parent() {
            std::fs::create_dir_all(parent).unwrap();
        }
        std::fs::write(&path, subst(&subst(c, b"@R@", &rootb), b"@M@", &marksb)).unwrap();
    }
    for (l, target) in &p.links {
        let path = root.join(l.trim_start_matches('/'));
        if let Some(parent) = path.parent() {
            std::fs::create_dir_all(parent).unwrap();
        }
        let _ = std::os::unix::fs::symlink(target, &path);
    }
    set_sentinel(&root, Path::new(""));
    let mut before = BTreeMap::new();
    snapshot(&root, Path::new(""), &mut before);

    let base_abs = root.join(p.base.trim_start_matches('/'));
    let old_cwd = std::env::current_dir().ok();
    let base_dir = if let Some(cwd) = &p.cwd {
        // run with the process cwd inside the tree and a base directory relative to it when possible
        let c = root.join(cwd.trim_start_matches('/'));
        std::env::set_current_dir(&c).unwrap();
        match base_abs.strip_prefix(&c) {
            Ok(r) if !r.as_os_str().is_empty() => r.to_path_buf(),
            Ok(_) => PathBuf::from("."),
            Err(_) => base_abs.clone(),
        }
    } else {
        base_abs.clone()
    };

    PANICKED.store(false, Ordering::SeqCst);
    let controlled = p.sched.is_some();
    let line;
    if let Some((src, first)) = &p.pp {
        // one pass of one file through the re-exported preprocess
        let srcp = root.join(src.trim_start_matches('/'));
        let mode = mode_of(p.mode);
        let first = *first;
        let trailing = p.trailing;
        let r = std::panic::catch_unwind(move || {
            let shell = Shell::new("").unwrap();
            let b = AbsPath::create_base(base_dir).unwrap();
            let f = b.share_base(srcp).unwrap();
            match verif::preprocess(&shell, &f, mode, first, trailing) {
                Ok(verif::PpResult::Ok(_)) => "ok".to_string(),
                Ok(verif::PpResult::HasDeps(_, deps)) => format!(
                    "deps[{}]",
                    deps.iter().map(|d| d.as_path().display().to_string()).collect::<Vec<_>>().join(",")
                ),
                Err(_) => "err".to_string(),
            }
        });
        line = match r {
            Ok(s) => {
                // canonicalise dependency paths
                if let Some(rest) = s.strip_prefix("deps[") {
                    let inner = rest.trim_end_matches(']');
                    let ds: Vec<String> = inner
                        .split(',')
                        .filter(|x| !x.is_empty())
                        .map(|d| hex(d.strip_prefix(&root.display().to_string()).unwrap_or(d).as_bytes()))
                        .collect();
                    format!("deps[{}]", ds.join(","))
                } else {
                    s
                }
            }
            Err(_) => "panic".to_string(),
        };
    } else {
        if controlled {
            verif::install_with_idle_polls(p.sched.clone().unwrap(), p.idle_polls);
        }
        let cfg = Config {
            base_dir,
            shell_cmd: "".into(),
            inputs: p.inputs.clone(),
            recursive: p.recursive,
            num_threads: if controlled && p.threads != 0 { 64 } else { p.threads },
            mode: mode_of(p.mode),
            verbosity: Verbosity::Quiet,
            trailing_newline: p.trailing,
        };
        let (tx, rx) = mpsc::channel();
        let cyc = std::sync::Arc::new(std::sync::atomic::AtomicBool::new(false));
        let cyc2 = cyc.clone();
        std::thread::spawn(move || {
            let r = std::panic::catch_unwind(|| match Txtpp::run(cfg) {
                Ok(()) => true,
                Err(e) => {
                    // the KIND of failure matters for C05: a circular-dependency report
                    if format!("{e:?}").contains("Circular dependencies") {
                        cyc2.store(true, Ordering::SeqCst);
                    }
                    false
                }
            });
            let _ = tx.send(r);
        });
        let timeout = Duration::from_secs(
            std::env::var("VP_WATCHDOG_S").ok().and_then(|s| s.parse().ok()).unwrap_or(20),
        );
        let mut stuck = false;
        let verdict = match rx.recv_timeout(timeout) {
            Ok(Ok(true)) => "ok",
            Ok(Ok(false)) => "err",
            Ok(Err(_)) => "panic",
            Err(_) => {
                stuck = true;
                if PANICKED.load(Ordering::SeqCst) {
                    "panic"
                } else {
                    "hang"
                }
            }
        };
        let trace = if controlled { verif::uninstall() } else { vec![] };
        let rs = root.display().to_string();
        let tr: Vec<String> = trace
            .iter()
            .map(|(t, _, _)| {
                let ps = t.path.display().to_string();
                let rel = ps.strip_prefix(&rs).unwrap_or(&ps).to_string();
                let h = hex(rel.as_bytes());
                if t.kind == 0 {
                    format!("s:{h}")
                } else if t.first {
                    format!("p1:{h}")
                } else {
                    format!("p2:{h}")
                }
            })
            .collect();
        let choices: Vec<String> = trace.iter().map(|(_, n, _)| n.to_string()).collect();
        if stuck {
            // the run is stuck (threads cannot be recovered): report and leave the tree behind for removal by the caller
            println!("R {} {} T {} N {}", p.id, verdict, tr.join(","), choices.join(","));
            std::io::stdout().flush().unwrap();
            let _ = std::fs::remove_dir_all(&scratch);
            std::process::exit(3);
        }
        line = format!(
            "{} T {} N {}{}",
            verdict,
            tr.join(","),
            choices.join(","),
            if cyc.load(Ordering::SeqCst) { " K cyc" } else { "" }
        );
    }
    if PANICKED.load(Ordering::SeqCst) && !line.starts_with("panic") {
        // some thread panicked although the run returned
        let _ = std::fs::remove_dir_all(&scratch);
        if let Some(c) = old_cwd {
            let _ = std::env::set_current_dir(c);
        }
        return format!("R {} panic", p.id);
    }
    if let Some(c) = old_cwd {
        let _ = std::env::set_current_dir(c);
    }

    let mut after = BTreeMap::new();
    snapshot(&root, Path::new(""), &mut after);
    let mut files = vec![];
    for (k, (c, _)) in &after {
        match c {
            Some(c) => files.push(format!("{}={}", hex(k.as_bytes()), hex(&subst(&subst(c, &rootb, b"@R@"), &marksb, b"@M@")))),
            None => files.push(format!("{}=/", hex(k.as_bytes()))),
        }
    }
    files.sort();
    let mut touched = BTreeSet::new();
    let sentinel = SystemTime::UNIX_EPOCH + Duration::from_secs(SENTINEL);
    for (k, (c, m)) in &after {
        if c.is_none() {
            continue;
        }
        match before.get(k) {
            None => {
                touched.insert(hex(k.as_bytes()));
            }
            Some((_, mb)) => {
                if m.mtime != sentinel || mb.ino != m.ino {
                    touched.insert(hex(k.as_bytes()));
                }
            }
        }
    }
    for (k, (c, _)) in &before {
        if c.is_some() && !after.contains_key(k) {
            touched.insert(hex(k.as_bytes()));
        }
    }
    // marker files written by counting commands
    let mut mark_list = vec![];
    if let Ok(rd) = std::fs::read_dir(&marks) {
        for e in rd.flatten() {
            let n = e.file_name().to_string_lossy().to_string();
            let c = std::fs::read(e.path()).unwrap_or_default();
            mark_list.push(format!("{}={}", n, hex(&subst(&c, &rootb, b"@R@"))));
        }
    }
    mark_list.sort();
    let _ = std::fs::remove_dir_all(&scratch);
    format!(
        "R {} {} F {} U {} M {}",
        p.id,
        line,
        files.join(";"),
        touched.into_iter().collect::<Vec<_>>().join(";"),
        mark_list.join(";")
    )
}

fn main() {
    std::panic::set_hook(Box::new(|info| {
        PANICKED.store(true, Ordering::SeqCst);
        if std::env::var("VP_DEBUG").is_ok() {
            eprintln!("vph: panic: {info}");
        }
    }));
    let stdin = std::io::stdin();
    let stdout = std::io::stdout();
    let mut out = std::io::BufWriter::new(stdout.lock());
    let mut cur: Option<Proj> = None;
    for line in stdin.lock().lines() {
        let line = line.unwrap();
        let t: Vec<&str> = line.split(' ').filter(|x| !x.is_empty()).collect();
        if t.is_empty() {
            continue;
        }
        let s = |x: &str| String::from_utf8(unhex(x)).unwrap();
        match (&mut cur, t[0]) {
            (None, "D") => writeln!(out, "{}", do_detect(t[1])).unwrap(),
            (None, "A") => writeln!(out, "{}", do_addline(t[1], t[2], t[3], t[4], t[5])).unwrap(),
            (None, "T") => {
                // every TagState has its own random hash seed: repeating the case exercises different iteration orders
                let reps: usize = std::env::var("VPH_TAG_REPEAT").ok().and_then(|s| s.parse().ok()).unwrap_or(1);
                let first = do_tags(t[1], &t[2..]);
                let mut res = first.clone();
                for _ in 1..reps {
                    let again = do_tags(t[1], &t[2..]);
                    if again != first {
                        res = format!("T nondeterministic: {} <> {}", first, again);
                        break;
                    }
                }
                writeln!(out, "{}", res).unwrap()
            }
            (None, "N") => writeln!(out, "{}", do_name(t[1])).unwrap(),
            (None, "L") => writeln!(out, "{}", do_lines(t[1])).unwrap(),
            (None, "R") => {
                cur = Some(Proj { id: t[1].to_string(), trailing: true, threads: 4, base: "/".into(), ..Default::default() })
            }
            (Some(p), "m") => {
                p.mode = t[1].parse().unwrap();
                p.trailing = t[2] == "1";
                p.recursive = t[3] == "1";
                p.threads = t[4].parse().unwrap();
            }
            (Some(p), "b") => p.base = s(t[1]),
            (Some(p), "w") => p.cwd = Some(s(t[1])),
            (Some(p), "i") => p.inputs.push(s(t[1])),
            (Some(p), "f") => p.files.push((s(t[1]), unhex(t[2]))),
            (Some(p), "d") => p.dirs.push(s(t[1])),
            (Some(p), "l") => p.links.push((s(t[1]), s(t[2]))),
            (Some(_), "c") => {}
            (Some(_), "o") => {}
            (Some(p), "s") => p.sched = Some(t[1..].iter().map(|x| x.parse().unwrap()).collect()),
            (Some(p), "y") => p.idle_polls = t[1] == "1",
            (Some(p), "p") => p.pp = Some((s(t[1]), t[2] == "1")),
            (Some(_), "E") => {
                out.flush().unwrap();
                let p = cur.take().unwrap();
                let r = run_proj(p);
                writeln!(out, "{}", r).unwrap();
                out.flush().unwrap();
            }
            _ => panic!("vph: cannot parse line: {line}"),
        }
    }
    out.flush().unwrap();
}
